// gosym: symbolic execution of go-txfile harnesses over go/ssa + SMT.
package main

import (
	"encoding/json"
	"flag"
	"fmt"
	"os"
	"path/filepath"
	"runtime/debug"
	"runtime/pprof"
	"sort"
	"strings"
	"time"

	"golang.org/x/tools/go/packages"
	"golang.org/x/tools/go/ssa"
	"golang.org/x/tools/go/ssa/ssautil"

	"verif/engine/sym"
)

const modPath = "github.com/elastic/go-txfile"

func main() {
	var (
		repo       = flag.String("repo", "/repo", "go-txfile working tree")
		hdir       = flag.String("harness", "/verif/harness", "harness directory (txfile/, pq/ sub-directories)")
		entries    = flag.String("entry", "", "comma separated harness entry functions (pkg.Func, pkg is txfile or pq); 'list' prints all")
		workers    = flag.Int("workers", 16, "parallel workers")
		out        = flag.String("out", "", "write JSON results to this file")
		solver     = flag.String("solver", "z3", "solver binary (z3, z3-new, cvc5)")
		timeout    = flag.Int("timeout", 30000, "per-query timeout (ms)")
		maxPaths   = flag.Int("max-paths", 20000, "path budget per harness")
		maxSteps   = flag.Int64("max-steps", 3000000, "instruction budget per path")
		maxDec     = flag.Int("max-decisions", 400, "decision budget per path")
		maxViol    = flag.Int("max-violations", 3, "stop a harness after this many unlisted violations")
		known      = flag.String("known", "", "comma separated ids of known findings the harnesses may tag")
		verbose    = flag.Bool("v", false, "verbose")
		trace      = flag.Bool("trace", false, "trace calls")
		replay     = flag.String("replay", "", "JSON file with a model: run the harness concretely inside the engine")
		budget     = flag.Duration("budget", 0, "wall-clock budget per harness (0 = none)")
		extraInits = flag.String("init", "", "additional packages whose init() is executed")
		params     = paramFlag{}
		cpuprof    = flag.String("cpuprofile", "", "write a CPU profile")
		fallback   = flag.Int("fallback", 120000, "one-shot solver budget (ms) for queries the incremental solver leaves undecided (0 = off)")
		gcpct      = flag.Int("gcpercent", 100, "GOGC value")
		races      = flag.String("races", "sched", "happens-before data race detection: sched (harnesses that call verifSched), all (every harness, from the start of each path), off")
	)
	flag.Var(params, "param", "harness parameter name=value (repeatable)")
	flag.Parse()
	debug.SetGCPercent(*gcpct)

	if *cpuprof != "" {
		pf, _ := os.Create(*cpuprof)
		pprof.StartCPUProfile(pf)
		defer pprof.StopCPUProfile()
	}
	t0 := time.Now()
	prog, pkgs, err := load(*repo, *hdir)
	if err != nil {
		fmt.Fprintln(os.Stderr, "load:", err)
		os.Exit(2)
	}
	loadS := time.Since(t0).Seconds()

	byName := map[string]*ssa.Package{}
	for _, p := range pkgs {
		if p == nil {
			continue
		}
		switch p.Pkg.Path() {
		case modPath:
			byName["txfile"] = p
		case modPath + "/pq":
			byName["pq"] = p
		}
	}
	if *entries == "list" || *entries == "" {
		for n, p := range byName {
			var names []string
			for m := range p.Members {
				if strings.HasPrefix(m, "Verif") {
					names = append(names, n+"."+m)
				}
			}
			sort.Strings(names)
			for _, x := range names {
				fmt.Println(x)
			}
		}
		return
	}

	initPkgs := map[string]bool{"io": true, "github.com/urso/go-bin": true}
	for _, p := range prog.AllPackages() {
		if strings.HasPrefix(p.Pkg.Path(), modPath) {
			initPkgs[p.Pkg.Path()] = true
		}
	}
	for _, p := range strings.Split(*extraInits, ",") {
		if p != "" {
			initPkgs[p] = true
		}
	}
	knownSet := map[string]bool{}
	for _, k := range strings.Split(*known, ",") {
		if k != "" {
			knownSet[k] = true
		}
	}
	var replayModel map[string]uint64
	if *replay != "" {
		data, err := os.ReadFile(*replay)
		if err != nil {
			fmt.Fprintln(os.Stderr, err)
			os.Exit(2)
		}
		var doc struct {
			Model map[string]uint64 `json:"model"`
		}
		if err := json.Unmarshal(data, &doc); err != nil {
			fmt.Fprintln(os.Stderr, err)
			os.Exit(2)
		}
		replayModel = doc.Model
		if replayModel == nil {
			replayModel = map[string]uint64{}
		}
	}

	type outDoc struct {
		LoadS   float64       `json:"load_s"`
		Solver  string        `json:"solver"`
		Results []*sym.Result `json:"results"`
	}
	doc := outDoc{LoadS: loadS, Solver: *solver}
	exit := 0
	for _, e := range strings.Split(*entries, ",") {
		parts := strings.SplitN(e, ".", 2)
		if len(parts) != 2 || byName[parts[0]] == nil {
			fmt.Fprintf(os.Stderr, "bad entry %q\n", e)
			os.Exit(2)
		}
		fn := byName[parts[0]].Func(parts[1])
		if fn == nil {
			fmt.Fprintf(os.Stderr, "no function %s\n", e)
			os.Exit(2)
		}
		cfg := &sym.Config{
			MaxSteps: *maxSteps, MaxDecisions: *maxDec, MaxPaths: *maxPaths, MaxViol: *maxViol,
			Workers: *workers, SolverPath: *solver, TimeoutMs: *timeout, Trace: *trace, Verbose: *verbose,
			InitPkgs: initPkgs, Known: knownSet, Replay: replayModel, Params: params, FallbackMs: *fallback,
			NoRaces: *races == "off", AllRaces: *races == "all",
		}
		if *budget > 0 {
			cfg.Deadline = time.Now().Add(*budget)
		}
		if replayModel != nil {
			cfg.Workers = 1
		}
		res := sym.Explore(prog, fn, cfg)
		res.Harness = e
		doc.Results = append(doc.Results, res)
		nv, nk := 0, 0
		for _, v := range res.Violations {
			if v.Known != "" {
				nk++
			} else {
				nv++
			}
		}
		fmt.Fprintf(os.Stderr, "%-40s paths=%d ok=%d cut=%d viol=%d known=%d asserts=%d q=%d/%d/%d steps=%d %.1fs %s\n",
			e, res.Paths, res.Completed, res.Cut, nv, nk, res.Asserts, res.Queries[0], res.Queries[1], res.Queries[2], res.Steps, res.WallS,
			strings.Join(res.Incomplete, "; "))
		if len(res.Incomplete) > 0 && exit == 0 {
			exit = 2
		}
		if nv > 0 {
			exit = 1
		}
	}
	data, _ := json.MarshalIndent(doc, "", " ")
	if *out != "" {
		if err := os.WriteFile(*out, data, 0o644); err != nil {
			fmt.Fprintln(os.Stderr, err)
			os.Exit(2)
		}
	} else {
		os.Stdout.Write(data)
		fmt.Println()
	}
	pprof.StopCPUProfile()
	os.Exit(exit)
}

type paramFlag map[string]int64

func (p paramFlag) String() string { return fmt.Sprint(map[string]int64(p)) }
func (p paramFlag) Set(s string) error {
	kv := strings.SplitN(s, "=", 2)
	if len(kv) != 2 {
		return fmt.Errorf("want name=value")
	}
	var v int64
	if _, err := fmt.Sscan(kv[1], &v); err != nil {
		return err
	}
	p[kv[0]] = v
	return nil
}

func load(repo, hdir string) (*ssa.Program, []*ssa.Package, error) {
	overlay := map[string][]byte{}
	for _, sub := range []struct{ dir, dst, pkg string }{{"txfile", repo, "txfile"}, {"pq", filepath.Join(repo, "pq"), "pq"}} {
		files, _ := filepath.Glob(filepath.Join(hdir, sub.dir, "*.go"))
		common, _ := filepath.Glob(filepath.Join(hdir, "common", "*.go"))
		for _, f := range append(files, common...) {
			data, err := os.ReadFile(f)
			if err != nil {
				return nil, nil, err
			}
			if filepath.Base(filepath.Dir(f)) == "common" {
				data = []byte(strings.Replace(string(data), "\npackage txfile\n", "\npackage "+sub.pkg+"\n", 1))
			}
			overlay[filepath.Join(sub.dst, "zz_verif_"+filepath.Base(f))] = data
		}
	}
	cfg := &packages.Config{
		Mode: packages.NeedName | packages.NeedFiles | packages.NeedCompiledGoFiles | packages.NeedImports |
			packages.NeedDeps | packages.NeedTypes | packages.NeedSyntax | packages.NeedTypesInfo | packages.NeedTypesSizes,
		Dir:        repo,
		BuildFlags: []string{"-tags=verif"},
		Overlay:    overlay,
		Env:        append(os.Environ(), "GOFLAGS=-mod=mod", "GOPROXY=off", "GOSUMDB=off", "GOTOOLCHAIN=local"),
	}
	pkgs, err := packages.Load(cfg, modPath, modPath+"/pq")
	if err != nil {
		return nil, nil, err
	}
	bad := false
	packages.Visit(pkgs, nil, func(p *packages.Package) {
		for _, e := range p.Errors {
			if strings.HasPrefix(p.PkgPath, modPath) {
				fmt.Fprintln(os.Stderr, e)
				bad = true
			}
		}
	})
	if bad {
		return nil, nil, fmt.Errorf("packages contain errors")
	}
	prog, spkgs := ssautil.AllPackages(pkgs, ssa.InstantiateGenerics)
	prog.Build()
	return prog, spkgs, nil
}
