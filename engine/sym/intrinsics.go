package sym

// External functions: the harness API (verif*), environment stubs and the few
// library functions that cannot be interpreted from source.

import (
	"fmt"
	"go/token"
	"go/types"
	"math/bits"
	"strings"

	"golang.org/x/tools/go/ssa"
)

type externalFn func(fr *frame, args []value) value

// notHandled is returned by an external that only implements a fast path; the
// function body is then interpreted as usual.
type notHandled struct{}

// concreteBytes returns the bytes of b[:n] if all of them are concrete.
func concreteBytes(b []value, n int) ([]byte, bool) {
	if len(b) < n {
		return nil, false
	}
	out := make([]byte, n)
	for k := 0; k < n; k++ {
		v, ok := b[k].(uint8)
		if !ok {
			return nil, false
		}
		out[k] = v
	}
	return out, true
}

// reflectStub stands for a reflect.Type; all its methods return zero values.
type reflectStub struct{}

// externals is keyed by (*ssa.Function).String().
var externals = map[string]externalFn{}

// harnessFns is keyed by the unqualified name of a body-less in-package function.
var harnessFns = map[string]externalFn{}

const osfsPkg = "github.com/elastic/go-txfile/internal/vfs/osfs"
const txfilePkg = "github.com/elastic/go-txfile"

// osfsHook redirects the OS-facing methods of osfs.File (and osfs.Open) to
// harness functions verifOsfs<Name> in package txfile, if the harness defines them.
func osfsHook(fn *ssa.Function, name string) externalFn {
	var hook string
	switch {
	case name == osfsPkg+".Open":
		hook = "verifOsfsOpen"
	case strings.HasPrefix(name, "(*"+osfsPkg+".File)."):
		m := strings.TrimPrefix(name, "(*"+osfsPkg+".File).")
		switch m {
		case "Size", "Truncate", "MMap", "MUnmap", "Sync":
			hook = "verifOsfs" + m
		}
	case strings.HasPrefix(name, "(*os.File)."):
		// promoted methods of the embedded *os.File are called directly
		switch m := strings.TrimPrefix(name, "(*os.File)."); m {
		case "ReadAt", "WriteAt", "Close", "Name":
			hook = "verifOsfs" + m
		}
	}
	if hook == "" {
		return nil
	}
	pkg := fn.Prog.ImportedPackage(txfilePkg)
	if pkg == nil {
		return nil
	}
	target := pkg.Func(hook)
	if target == nil {
		return nil
	}
	return func(fr *frame, args []value) value {
		return call(fr.i, fr, token.NoPos, target, args)
	}
}

func lookupExternal(fn *ssa.Function, name string) externalFn {
	if e := externals[name]; e != nil {
		return e
	}
	if e := osfsHook(fn, name); e != nil {
		return e
	}
	if fn.Blocks == nil && strings.HasPrefix(fn.Name(), "verif") {
		if e := harnessFns[fn.Name()]; e != nil {
			return e
		}
	}
	return nil
}

func (i *Interp) freshName(base string) string {
	k := i.nondet[base]
	i.nondet[base] = k + 1
	if k == 0 {
		return base
	}
	return fmt.Sprintf("%s#%d", base, k)
}

func (i *Interp) nondetValue(base string, t types.Type) value {
	name := i.freshName(base)
	w, _, _ := intInfo(t)
	if i.cfg.Replay != nil {
		return fromConst(t, i.cfg.Replay[name])
	}
	return i.ctx.Var(name, w)
}

func errorString(i *Interp, fr *frame, msg string) value {
	pkg := i.prog.ImportedPackage("errors")
	if pkg == nil {
		panic("package errors not loaded")
	}
	return call(i, fr, token.NoPos, pkg.Func("New"), []value{msg})
}

func init() {
	nd := func(t types.Type) externalFn {
		return func(fr *frame, args []value) value {
			return fr.i.nondetValue(args[0].(string), t)
		}
	}
	for k, v := range map[string]externalFn{
		"verifU64":  nd(types.Typ[types.Uint64]),
		"verifU32":  nd(types.Typ[types.Uint32]),
		"verifU16":  nd(types.Typ[types.Uint16]),
		"verifU8":   nd(types.Typ[types.Uint8]),
		"verifInt":  nd(types.Typ[types.Int]),
		"verifUint": nd(types.Typ[types.Uint]),
		"verifBool": nd(types.Typ[types.Bool]),
		"verifAssume": func(fr *frame, args []value) value {
			i := fr.i
			switch c := args[0].(type) {
			case bool:
				if !c {
					i.abort("assume")
				}
			case *Term:
				if i.pos < len(i.prefix) {
					// while replaying a prefix the assumption is known to be satisfiable
					i.assertPC(c)
					return nil
				}
				r := i.feasible(c)
				if r == Unsat {
					i.abort("assume")
				}
				i.assertPC(c)
			}
			return nil
		},
		"verifAssert": func(fr *frame, args []value) value {
			i := fr.i
			msg := args[1].(string)
			switch c := args[0].(type) {
			case bool:
				if !c {
					i.violation("assert", msg)
					i.abort("violation")
				}
				i.asserts++
			case *Term:
				neg := i.ctx.Not(c)
				r := i.solver.Check(neg)
				switch r {
				case Sat:
					i.assertPC(neg)
					i.violation("assert", msg)
					i.abort("violation")
				case Unknown:
					i.incompl = append(i.incompl, "assertion undecided (solver unknown): "+msg+" at "+i.where())
					i.assertPC(c)
				default:
					i.asserts++
					i.assertPC(c)
				}
			}
			return nil
		},
		"verifParam": func(fr *frame, args []value) value {
			if v, ok := fr.i.cfg.Params[args[0].(string)]; ok {
				return int(v)
			}
			return args[1]
		},
		"verifNative":       func(fr *frame, args []value) value { return false },
		"verifNativeLock":   func(fr *frame, args []value) value { return nil },
		"verifNativeUnlock": func(fr *frame, args []value) value { return nil },
		"verifBytesEqual": func(fr *frame, args []value) value {
			a, b := args[0].([]value), args[1].([]value)
			if len(a) != len(b) {
				return false
			}
			var r value = true
			for k := range a {
				r = fr.i.andV(r, fr.i.equalsV(types.Typ[types.Uint8], a[k], b[k]))
				if rb, ok := r.(bool); ok && !rb {
					return false
				}
			}
			fr.i.steps += int64(len(a) / 8)
			return r
		},
		"verifNewOSFile": func(fr *frame, args []value) value {
			// a fresh, distinguishable *os.File (never dereferenced by interpreted code)
			v := zero(mustDeref(fr.fn.Signature.Results().At(0).Type()))
			return &v
		},
		"verifFlockHeld": func(fr *frame, args []value) value {
			// is any lock held on an inode that is or was named by this path?
			st := fr.i.flockState()
			if ino := st.paths[args[0].(string)]; ino != nil && ino.held != nil {
				return true
			}
			for _, ino := range st.objs {
				if ino.held != nil {
					return true
				}
			}
			return false
		},
		// non-forking Boolean connectives
		"verifOr": func(fr *frame, args []value) value {
			return fr.i.notV(fr.i.andV(fr.i.notV(args[0]), fr.i.notV(args[1])))
		},
		"verifAnd":         func(fr *frame, args []value) value { return fr.i.andV(args[0], args[1]) },
		"verifNativeSleep": func(fr *frame, args []value) value { return nil },
		"verifReach": func(fr *frame, args []value) value {
			fr.i.reached[args[0].(string)]++
			return nil
		},
		"verifChoose": func(fr *frame, args []value) value {
			// a solver variable in [0,n), case-split over its values
			i := fr.i
			n := int(i.concreteInt(args[0], "verifChoose"))
			if n <= 1 {
				return 0
			}
			v := i.nondetValue("__choose", types.Typ[types.Int])
			if t, ok := v.(*Term); ok {
				i.assertPC(i.ctx.Cmp(OpULt, t, i.ctx.BV(64, uint64(n))))
				return int(i.concretize(t, "verifChoose"))
			}
			return v
		},
		"verifKnown": func(fr *frame, args []value) value {
			i := fr.i
			id := args[0].(string)
			if !i.truth(args[1], nil) {
				return false
			}
			if i.cfg.Known[id] {
				i.known = id
			}
			return true
		},
		"verifSched": func(fr *frame, args []value) value {
			fr.i.schedOn = true
			fr.i.preempts = int(asInt64(args[0]))
			if fr.i.race == nil && !fr.i.cfg.NoRaces {
				fr.i.raceInit()
			}
			return nil
		},
		"verifYield": func(fr *frame, args []value) value {
			// a possible context switch (counts against the preemption budget)
			fr.i.block(nil, "yield")
			return nil
		},
		"verifPoll": func(fr *frame, args []value) value {
			// polling loop: always lets another runnable thread run (not a preemption)
			fr.i.yield()
			return nil
		},
		"verifLog": func(fr *frame, args []value) value {
			fr.i.log = append(fr.i.log, args[0].(string))
			return nil
		},
		"verifLogU64": func(fr *frame, args []value) value {
			fr.i.log = append(fr.i.log, args[0].(string)+"="+toString(args[1]))
			return nil
		},
		"verifConcretize": func(fr *frame, args []value) value {
			if t, ok := args[0].(*Term); ok {
				return fr.i.concretize(t, "verifConcretize")
			}
			return args[0]
		},
		"verifIsSymbolic": func(fr *frame, args []value) value {
			_, ok := args[0].(*Term)
			return ok
		},
		"verifSymBytes": func(fr *frame, args []value) value {
			i := fr.i
			base := args[0].(string)
			b := args[1].([]value)
			for k := range b {
				b[k] = i.nondetValue(fmt.Sprintf("%s[%d]", base, k), types.Typ[types.Uint8])
			}
			return nil
		},
		"verifSortTies": func(fr *frame, args []value) value {
			fr.i.extra["sortties"] = args[0].(bool)
			return nil
		},
		"verifThreadsBlocked": func(fr *frame, args []value) value {
			// number of live non-main threads that cannot run right now
			n := 0
			for _, t := range fr.i.threads[1:] {
				if !t.done && t.canRun != nil && !t.canRun() {
					n++
				}
			}
			return n
		},
	} {
		harnessFns[k] = v
	}

	for k, v := range map[string]externalFn{
		"github.com/urso/go-bin.UnsafeCastStruct": func(fr *frame, args []value) value {
			to := args[0].(iface)
			b := args[1].([]value)
			var v value = (*value)(nil)
			if len(b) != 0 {
				v = viewPtr{mem: b[:cap(b)]}
			}
			pp := to.v.(*value)
			*pp = v
			return nil
		},
		"time.Now": func(fr *frame, args []value) value {
			return zero(fr.fn.Signature.Results().At(0).Type())
		},
		"time.Since": func(fr *frame, args []value) value {
			return int64(0)
		},
		"(time.Time).Sub": func(fr *frame, args []value) value {
			return int64(0)
		},
		"reflect.TypeOf": func(fr *frame, args []value) value {
			return iface{t: types.Typ[types.UnsafePointer], v: reflectStub{}}
		},
		"os.Getpagesize": func(fr *frame, args []value) value { return int(4096) },
		"fmt.Sprintf":    func(fr *frame, args []value) value { return "<fmt.Sprintf " + fmtArg0(args) + ">" },
		"fmt.Sprint":     func(fr *frame, args []value) value { return "<fmt.Sprint>" },
		"fmt.Sprintln":   func(fr *frame, args []value) value { return "<fmt.Sprintln>" },
		"fmt.Errorf": func(fr *frame, args []value) value {
			return errorString(fr.i, fr, "<fmt.Errorf "+fmtArg0(args)+">")
		},
		"fmt.Fprintf": func(fr *frame, args []value) value { return tuple{0, iface{}} },
		"fmt.Printf":  func(fr *frame, args []value) value { return tuple{0, iface{}} },
		"fmt.Println": func(fr *frame, args []value) value { return tuple{0, iface{}} },
		"sort.Slice": func(fr *frame, args []value) value {
			ties, _ := fr.i.extra["sortties"].(bool)
			sortSlice(fr, args[0].(iface).v.([]value), args[1], ties)
			return nil
		},
		"sort.SliceStable": func(fr *frame, args []value) value {
			sortSlice(fr, args[0].(iface).v.([]value), args[1], false)
			return nil
		},
		"math/bits.LeadingZeros64": func(fr *frame, args []value) value {
			switch x := args[0].(type) {
			case uint64:
				return bits.LeadingZeros64(x)
			case *Term:
				c := fr.i.ctx
				// ite ladder: number of leading zeros
				r := c.BV(64, 64)
				for k := 0; k < 64; k++ {
					bit := c.Eq(c.Extract(x, k, k), c.BV(1, 1))
					r = c.Ite(bit, c.BV(64, uint64(63-k)), r)
				}
				return norm(types.Typ[types.Int], r)
			}
			panic("bits.LeadingZeros64: bad argument")
		},
		// fast paths for fully concrete operands (the bodies are interpreted otherwise)
		"(*hash/fnv.sum32a).Write": func(fr *frame, args []value) value {
			p, ok := args[0].(*value)
			if !ok || p == nil {
				return notHandled{}
			}
			h, ok := (*p).(uint32)
			if !ok {
				return notHandled{}
			}
			data := args[1].([]value)
			bs, ok := concreteBytes(data, len(data))
			if !ok {
				return notHandled{}
			}
			for _, c := range bs {
				h ^= uint32(c)
				h *= 16777619
			}
			*p = h
			fr.i.steps += int64(len(bs))
			return tuple{len(bs), iface{}}
		},
		"(encoding/binary.littleEndian).Uint64": func(fr *frame, args []value) value {
			b := args[1].([]value)
			bs, ok := concreteBytes(b, 8)
			if !ok {
				return notHandled{}
			}
			return uint64(bs[0]) | uint64(bs[1])<<8 | uint64(bs[2])<<16 | uint64(bs[3])<<24 | uint64(bs[4])<<32 | uint64(bs[5])<<40 | uint64(bs[6])<<48 | uint64(bs[7])<<56
		},
		"(encoding/binary.littleEndian).Uint32": func(fr *frame, args []value) value {
			b := args[1].([]value)
			bs, ok := concreteBytes(b, 4)
			if !ok {
				return notHandled{}
			}
			return uint32(bs[0]) | uint32(bs[1])<<8 | uint32(bs[2])<<16 | uint32(bs[3])<<24
		},
		"(encoding/binary.littleEndian).PutUint64": func(fr *frame, args []value) value {
			b := args[1].([]value)
			v, ok := args[2].(uint64)
			if !ok || len(b) < 8 {
				return notHandled{}
			}
			for k := 0; k < 8; k++ {
				b[k] = uint8(v >> (8 * k))
			}
			return nil
		},
		"(encoding/binary.littleEndian).PutUint32": func(fr *frame, args []value) value {
			b := args[1].([]value)
			v, ok := args[2].(uint32)
			if !ok || len(b) < 4 {
				return notHandled{}
			}
			for k := 0; k < 4; k++ {
				b[k] = uint8(v >> (8 * k))
			}
			return nil
		},
		// advisory file lock: one lock per lock-file inode; a Flock object opens the
		// path (getting the inode the path names at that moment) when it first tries
		// to lock and closes it on Unlock; os.Remove unlinks the path from its inode.
		"(*github.com/gofrs/flock.Flock).TryLock": func(fr *frame, args []value) value {
			i := fr.i
			p := args[0].(*value)
			ino := i.flockInode(p, flockPath(fr, p))
			if ino.held != nil {
				if ino.held != p {
					delete(i.flockState().objs, p) // the library closes its descriptor again
				}
				return tuple{false, iface{}}
			}
			ino.held = p
			return tuple{true, iface{}}
		},
		"(*github.com/gofrs/flock.Flock).Lock": func(fr *frame, args []value) value {
			i := fr.i
			p := args[0].(*value)
			ino := i.flockInode(p, flockPath(fr, p))
			if ino.held != nil {
				i.block(func() bool { return ino.held == nil }, "flock")
			}
			ino.held = p
			return iface{}
		},
		"(*github.com/gofrs/flock.Flock).Unlock": func(fr *frame, args []value) value {
			i := fr.i
			p := args[0].(*value)
			st := i.flockState()
			if ino := st.objs[p]; ino != nil {
				if ino.held == p {
					ino.held = nil
				}
				delete(st.objs, p)
			}
			return iface{}
		},
		"os.Remove": func(fr *frame, args []value) value {
			st := fr.i.flockState()
			delete(st.paths, args[0].(string))
			return iface{}
		},
		"runtime.Gosched": func(fr *frame, args []value) value {
			fr.i.block(nil, "Gosched")
			return nil
		},
	} {
		externals[k] = v
	}
}

func flockPath(fr *frame, p *value) string {
	t := mustDeref(fr.fn.Signature.Recv().Type())
	return (*p).(structure)[fieldIndex(t, "path")].(string)
}

type flockInode struct{ held *value }

type flockModel struct {
	paths map[string]*flockInode // the inode a path currently names
	objs  map[*value]*flockInode // the inode a Flock object has open
}

func (i *Interp) flockState() *flockModel {
	m, _ := i.extra["flocks"].(*flockModel)
	if m == nil {
		m = &flockModel{paths: map[string]*flockInode{}, objs: map[*value]*flockInode{}}
		i.extra["flocks"] = m
	}
	return m
}

// flockInode returns the inode the Flock object p has open, opening path if necessary.
func (i *Interp) flockInode(p *value, path string) *flockInode {
	st := i.flockState()
	if ino := st.objs[p]; ino != nil {
		return ino
	}
	ino := st.paths[path]
	if ino == nil {
		ino = &flockInode{}
		st.paths[path] = ino
	}
	st.objs[p] = ino
	return ino
}

func fmtArg0(args []value) string {
	if len(args) > 0 {
		if s, ok := args[0].(string); ok {
			return s
		}
	}
	return ""
}

// sortSlice is an insertion sort driven by the target's less function.  With
// ties == true, the relative order of elements that compare equal is a
// decision (sort.Slice is documented not to be stable).
func sortSlice(fr *frame, s []value, less value, ties bool) {
	i := fr.i
	// less(i, j) refers to positions in the slice, so elements must be in place
	// when it is called.
	lessAt := func(a, b int) bool {
		return i.truth(call(i, fr, token.NoPos, less, []value{a, b}), nil)
	}
	for k := 1; k < len(s); k++ {
		for j := k; j > 0; j-- {
			if lessAt(j, j-1) {
				s[j], s[j-1] = s[j-1], s[j]
				continue
			}
			if ties && !lessAt(j-1, j) {
				if i.choose(2, 's') == 1 {
					s[j], s[j-1] = s[j-1], s[j]
					continue
				}
			}
			break
		}
	}
}
