package sym

// Happens-before data race detection on the explored schedules.
//
// Every interpreted goroutine carries a vector clock; the engine's models of
// sync.Mutex / Cond / WaitGroup / Pool / atomic and goroutine start are the
// synchronisation edges (as in the Go memory model).  Loads and stores
// executed by *target* code (functions of the module under test that are not
// harness code) on heap cells are checked FastTrack-style: two accesses to
// one cell, at least one a write, by different goroutines, not ordered by
// happens-before, are a data race (violation kind "race").  The check is
// independent of where the explored schedule happened to place the two
// accesses, so it also sees races below the engine's context-switch
// granularity (switches happen only at sync operations).
//
// Harness code runs the goroutines and usually waits for them with plain
// flags; heap loads/stores executed by harness functions are therefore
// treated as acquire/release operations on the cell (as if the harness
// variables were atomics), never as racing accesses.

import (
	"fmt"
	"go/token"
	"go/types"
	"strings"

	"golang.org/x/tools/go/ssa"
)

type vclock []uint32

func (a vclock) get(t int) uint32 {
	if t < len(a) {
		return a[t]
	}
	return 0
}

func (a vclock) join(b vclock) vclock {
	if len(b) > len(a) {
		n := make(vclock, len(b))
		copy(n, a)
		a = n
	}
	for k, v := range b {
		if v > a[k] {
			a[k] = v
		}
	}
	return a
}

func (a vclock) clone() vclock { return append(vclock(nil), a...) }

type raceRead struct {
	t   int
	c   uint32
	pos string
}

type raceCell struct {
	wT    int
	wC    uint32
	wPos  string
	reads []raceRead
}

type raceState struct {
	on      bool
	shadow  map[interface{}]*raceCell
	sync    map[interface{}]vclock
	fnKind  map[*ssa.Function]int8 // 1 target, 2 harness, 3 other
	modPath string
}

const raceModulePath = "github.com/elastic/go-txfile"

const (
	fnTarget  = 1
	fnHarness = 2
	fnOther   = 3
)

func (i *Interp) raceInit() {
	i.race = &raceState{on: true, shadow: map[interface{}]*raceCell{}, sync: map[interface{}]vclock{}, fnKind: map[*ssa.Function]int8{}}
	for _, t := range i.threads {
		if t.vc == nil {
			t.vc = make(vclock, t.id+1)
			t.vc[t.id] = 1
		}
	}
}

func (rs *raceState) kindOf(i *Interp, fn *ssa.Function) int8 {
	if k, ok := rs.fnKind[fn]; ok {
		return k
	}
	k := int8(fnOther)
	root := fn
	for root.Parent() != nil {
		root = root.Parent()
	}
	var path string
	if root.Pkg != nil {
		path = root.Pkg.Pkg.Path()
	} else if o := root.Origin(); o != nil && o.Pkg != nil {
		path = o.Pkg.Pkg.Path()
	}
	if strings.HasPrefix(path, raceModulePath) {
		k = fnTarget
		file := i.prog.Fset.Position(root.Pos()).Filename
		if strings.Contains(file, "zz_verif") || strings.HasPrefix(root.Name(), "Verif") || strings.HasPrefix(root.Name(), "verif") {
			k = fnHarness
		}
	}
	rs.fnKind[fn] = k
	return k
}

func (t *thread) tick() {
	for len(t.vc) <= t.id {
		t.vc = append(t.vc, 0)
	}
	t.vc[t.id]++
}

// raceSpawn is called when parent starts child.
func (i *Interp) raceSpawn(parent, child *thread) {
	if i.race == nil {
		return
	}
	child.vc = parent.vc.clone()
	for len(child.vc) <= child.id {
		child.vc = append(child.vc, 0)
	}
	child.vc[child.id] = 1
	parent.tick()
}

func (i *Interp) raceAcquire(obj interface{}) {
	if i.race == nil {
		return
	}
	if l, ok := i.race.sync[obj]; ok {
		i.cur.vc = i.cur.vc.join(l)
	}
}

func (i *Interp) raceRelease(obj interface{}) {
	if i.race == nil {
		return
	}
	i.race.sync[obj] = i.race.sync[obj].clone().join(i.cur.vc)
	i.cur.tick()
}

func (i *Interp) posOf(instr ssa.Instruction) string {
	p := i.prog.Fset.Position(instr.Pos())
	fn := ""
	if par := instr.Parent(); par != nil {
		fn = par.String()
	}
	return fmt.Sprintf("%s %s:%d", fn, shortFile(p.Filename), p.Line)
}

// raceInstr is called for every load (UnOp MUL) and Store before it executes.
func (i *Interp) raceInstr(fr *frame, instr ssa.Instruction, addrV ssa.Value, addr value, T types.Type, write bool) {
	rs := i.race
	if a, ok := addrV.(*ssa.Alloc); ok && !a.Heap {
		return // goroutine-local stack cell
	}
	p, ok := addr.(*value)
	if !ok || p == nil {
		return
	}
	switch rs.kindOf(i, fr.fn) {
	case fnHarness:
		// harness variables behave like atomics
		if write {
			i.raceRelease(p)
		} else {
			i.raceAcquire(p)
		}
		return
	case fnOther:
		return
	}
	i.raceCells(instr, p, T, write)
}

// raceCells checks the cell(s) behind p; composite values are checked per element.
func (i *Interp) raceCells(instr ssa.Instruction, p *value, T types.Type, write bool) {
	switch v := (*p).(type) {
	case structure:
		if named, ok := T.(*types.Named); ok {
			if pk := named.Obj().Pkg(); pk != nil && (pk.Path() == "sync" || pk.Path() == "sync/atomic") {
				return
			}
		}
		st, _ := T.Underlying().(*types.Struct)
		for k := range v {
			var ft types.Type = types.Typ[types.Invalid]
			if st != nil && k < st.NumFields() {
				ft = st.Field(k).Type()
			}
			i.raceCells(instr, &v[k], ft, write)
		}
		return
	case array:
		var et types.Type = types.Typ[types.Invalid]
		if at, ok := T.Underlying().(*types.Array); ok {
			et = at.Elem()
		}
		if len(v) > 64 {
			return // large arrays (buffers) are not tracked element-wise
		}
		for k := range v {
			i.raceCells(instr, &v[k], et, write)
		}
		return
	}
	i.raceCheck(instr, p, write)
}

func (i *Interp) raceCheck(instr ssa.Instruction, key interface{}, write bool) {
	rs := i.race
	t := i.cur
	c := rs.shadow[key]
	if c == nil {
		c = &raceCell{wT: -1}
		rs.shadow[key] = c
	}
	me := t.vc.get(t.id)
	// write-write / write-read conflict with the last write
	if c.wT >= 0 && c.wT != t.id && c.wC > t.vc.get(c.wT) {
		i.raceReport(instr, write, c.wPos, true, c.wT)
		return
	}
	if write {
		for _, r := range c.reads {
			if r.t != t.id && r.c > t.vc.get(r.t) {
				i.raceReport(instr, write, r.pos, false, r.t)
				return
			}
		}
		c.wT, c.wC, c.wPos = t.id, me, i.posOf(instr)
		c.reads = c.reads[:0]
		return
	}
	for k := range c.reads {
		if c.reads[k].t == t.id {
			c.reads[k].c = me
			c.reads[k].pos = i.posOf(instr)
			return
		}
	}
	c.reads = append(c.reads, raceRead{t: t.id, c: me, pos: i.posOf(instr)})
}

func (i *Interp) raceReport(instr ssa.Instruction, write bool, otherPos string, otherWrite bool, otherT int) {
	if i.viol != nil {
		return
	}
	kind := func(w bool) string {
		if w {
			return "write"
		}
		return "read"
	}
	i.curInstr = instr
	msg := fmt.Sprintf("data race: %s at [%s] is not ordered (happens-before) with the %s at [%s] in another goroutine",
		kind(write), i.posOf(instr), kind(otherWrite), otherPos)
	i.log = append(i.log, fmt.Sprintf("race between %s and %s", i.cur.name, i.threads[otherT].name))
	i.violation("race", msg)
	i.abort("race")
}

// raceMap is called for map reads (Lookup, Range, len) and writes (MapUpdate, delete).
func (i *Interp) raceMap(fr *frame, instr ssa.Instruction, m interface{}, write bool) {
	if i.race == nil || m == nil {
		return
	}
	if i.race.kindOf(i, fr.fn) != fnTarget {
		return
	}
	i.raceCheck(instr, m, write)
}

var _ = token.NoPos
