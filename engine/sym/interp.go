// Copyright 2013 The Go Authors. All rights reserved.
// Use of this source code is governed by a BSD-style
// license that can be found in the LICENSE file (LICENSE.x-tools).
//
// Derived from golang.org/x/tools/go/ssa/interp (v0.29.0) and extended into a
// symbolic executor: scalars may be SMT terms (*Term), branches on symbolic
// conditions are decisions recorded in a decision vector, byte buffers can be
// viewed through typed pointers (unsafe casts of on-disk structs), goroutines
// are cooperative threads and package sync is modelled by the engine.

package sym

import (
	"fmt"
	"go/token"
	"go/types"
	"os"
	"runtime"
	"runtime/debug"
	"slices"
	"sync"

	"golang.org/x/tools/go/ssa"
)

type continuation int

const (
	kNext continuation = iota
	kReturn
	kJump
)

// fnInfo caches per-function data shared by all runs (read-only after build).
type fnInfo struct {
	regs  map[ssa.Value]int
	nregs int
	ext   externalFn
	name  string
}

var fnInfos sync.Map // *ssa.Function -> *fnInfo

func infoOf(fn *ssa.Function) *fnInfo {
	if v, ok := fnInfos.Load(fn); ok {
		return v.(*fnInfo)
	}
	fi := &fnInfo{regs: map[ssa.Value]int{}, name: fn.String()}
	add := func(v ssa.Value) {
		if _, ok := fi.regs[v]; !ok {
			fi.regs[v] = fi.nregs
			fi.nregs++
		}
	}
	for _, p := range fn.Params {
		add(p)
	}
	for _, p := range fn.FreeVars {
		add(p)
	}
	for _, l := range fn.Locals {
		add(l)
	}
	for _, b := range fn.Blocks {
		for _, ins := range b.Instrs {
			if v, ok := ins.(ssa.Value); ok {
				add(v)
			}
		}
	}
	if fn.Parent() == nil {
		fi.ext = lookupExternal(fn, fi.name)
	}
	v, _ := fnInfos.LoadOrStore(fn, fi)
	return v.(*fnInfo)
}

type deferred struct {
	fn    value
	args  []value
	instr *ssa.Defer
	tail  *deferred
}

type frame struct {
	i                *Interp
	caller           *frame
	fn               *ssa.Function
	info             *fnInfo
	block, prevBlock *ssa.BasicBlock
	env              []value // dynamic values of SSA variables
	locals           []value
	defers           *deferred
	result           value
	panicking        bool
	panic            interface{}
	phitemps         []value // temporaries for parallel phi assignment
	thr              *thread
	callpos          token.Pos
	depth            int
	nsteps           int64
}

func (fr *frame) get(key ssa.Value) value {
	switch key := key.(type) {
	case nil:
		return nil
	case *ssa.Function, *ssa.Builtin:
		return key
	case *ssa.Const:
		return constValue(key)
	case *ssa.Global:
		return fr.i.global(key)
	}
	if r, ok := fr.info.regs[key]; ok {
		return fr.env[r]
	}
	panic(fmt.Sprintf("get: no value for %T: %v", key, key.Name()))
}

func (fr *frame) set(key ssa.Value, v value) {
	fr.env[fr.info.regs[key]] = v
}

// abortPath unwinds a whole path execution without running target defers.
type abortPath struct{ why string }

// engineError marks a failure of the interpreter itself (not of the target).
type engineError struct {
	err   interface{}
	stack string
	where string
}

func isAbort(p interface{}) bool {
	switch p.(type) {
	case abortPath, engineError:
		return true
	}
	return false
}

func (fr *frame) runDefer(d *deferred) {
	var ok bool
	defer func() {
		if !ok {
			r := recover()
			if isAbort(r) {
				panic(r)
			}
			fr.panicking = true
			fr.panic = r
		}
	}()
	call(fr.i, fr, d.instr.Pos(), d.fn, d.args)
	ok = true
}

func (fr *frame) runDefers() {
	for d := fr.defers; d != nil; d = d.tail {
		fr.runDefer(d)
	}
	fr.defers = nil
	if fr.panicking {
		panic(fr.panic) // new panic, or still panicking
	}
}

func lookupMethod(i *Interp, typ types.Type, meth *types.Func) *ssa.Function {
	return i.prog.LookupMethod(typ, meth.Pkg(), meth.Name())
}

func mustDeref(t types.Type) types.Type {
	if p, ok := t.Underlying().(*types.Pointer); ok {
		return p.Elem()
	}
	panic(fmt.Sprintf("mustDeref: %v is not a pointer", t))
}

// rtPanic raises a Go run-time panic of the *target* program.
func (i *Interp) rtPanic(msg string) {
	panic(targetPanic{iface{t: i.runtimeErrorString, v: "runtime error: " + msg}})
}

func visitInstr(fr *frame, instr ssa.Instruction) continuation {
	i := fr.i
	i.steps++
	fr.nsteps++
	if i.steps > i.cfg.MaxSteps {
		i.abort("step-limit")
	}
	switch instr := instr.(type) {
	case *ssa.DebugRef:
		// no-op

	case *ssa.UnOp:
		if i.race != nil && instr.Op == token.MUL {
			i.raceInstr(fr, instr, instr.X, fr.get(instr.X), mustDeref(instr.X.Type()), false)
		}
		fr.set(instr, i.unop(instr, fr.get(instr.X)))

	case *ssa.BinOp:
		fr.set(instr, i.binop(instr.Op, instr.X.Type(), fr.get(instr.X), fr.get(instr.Y)))

	case *ssa.Call:
		fn, args := prepareCall(fr, &instr.Call)
		fr.set(instr, call(fr.i, fr, instr.Pos(), fn, args))

	case *ssa.ChangeInterface:
		fr.set(instr, fr.get(instr.X))

	case *ssa.ChangeType:
		fr.set(instr, fr.get(instr.X)) // (can't fail)

	case *ssa.Convert:
		fr.set(instr, i.conv(instr.Type(), instr.X.Type(), fr.get(instr.X)))

	case *ssa.SliceToArrayPointer:
		fr.set(instr, sliceToArrayPointer(instr.Type(), instr.X.Type(), fr.get(instr.X)))

	case *ssa.MakeInterface:
		fr.set(instr, iface{t: instr.X.Type(), v: fr.get(instr.X)})

	case *ssa.Extract:
		fr.set(instr, fr.get(instr.Tuple).(tuple)[instr.Index])

	case *ssa.Slice:
		fr.set(instr, i.slice(instr, fr.get(instr.X), fr.get(instr.Low), fr.get(instr.High), fr.get(instr.Max)))

	case *ssa.Return:
		switch len(instr.Results) {
		case 0:
		case 1:
			fr.result = fr.get(instr.Results[0])
		default:
			var res []value
			for _, r := range instr.Results {
				res = append(res, fr.get(r))
			}
			fr.result = tuple(res)
		}
		fr.block = nil
		return kReturn

	case *ssa.RunDefers:
		fr.runDefers()

	case *ssa.Panic:
		panic(targetPanic{fr.get(instr.X)})

	case *ssa.Send:
		panic("channels are not supported")

	case *ssa.Store:
		if i.race != nil {
			i.raceInstr(fr, instr, instr.Addr, fr.get(instr.Addr), mustDeref(instr.Addr.Type()), true)
		}
		i.storeTo(mustDeref(instr.Addr.Type()), fr.get(instr.Addr), fr.get(instr.Val))

	case *ssa.If:
		succ := 1
		if i.truth(fr.get(instr.Cond), instr) {
			succ = 0
		}
		fr.prevBlock, fr.block = fr.block, fr.block.Succs[succ]
		return kJump

	case *ssa.Jump:
		fr.prevBlock, fr.block = fr.block, fr.block.Succs[0]
		return kJump

	case *ssa.Defer:
		fn, args := prepareCall(fr, &instr.Call)
		defers := &fr.defers
		if into := fr.get(instr.DeferStack); into != nil {
			defers = into.(**deferred)
		}
		*defers = &deferred{
			fn:    fn,
			args:  args,
			instr: instr,
			tail:  *defers,
		}

	case *ssa.Go:
		fn, args := prepareCall(fr, &instr.Call)
		i.spawn(fn, args, instr.Pos())

	case *ssa.MakeChan:
		panic("channels are not supported")

	case *ssa.Alloc:
		var addr *value
		if instr.Heap {
			addr = new(value)
			fr.set(instr, addr)
		} else {
			addr = fr.get(instr).(*value)
		}
		*addr = zero(mustDeref(instr.Type()))

	case *ssa.MakeSlice:
		c := int(i.concreteInt(fr.get(instr.Cap), "makeslice cap"))
		l := int(i.concreteInt(fr.get(instr.Len), "makeslice len"))
		if l < 0 || c < l {
			i.rtPanic("makeslice: len out of range")
		}
		if c > 1<<26 {
			i.abort("makeslice-too-large")
		}
		slice := make([]value, c)
		tElt := instr.Type().Underlying().(*types.Slice).Elem()
		if b, ok := tElt.Underlying().(*types.Basic); ok && b.Kind() == types.Uint8 {
			z := value(uint8(0))
			for k := range slice {
				slice[k] = z
			}
		} else {
			for k := range slice {
				slice[k] = zero(tElt)
			}
		}
		fr.set(instr, slice[:l])

	case *ssa.MakeMap:
		fr.set(instr, newOmap(instr.Type().Underlying().(*types.Map).Key()))

	case *ssa.Range:
		if m, ok := fr.get(instr.X).(*omap); ok && i.race != nil {
			i.raceMap(fr, instr, m, false)
		}
		fr.set(instr, rangeIter(fr.get(instr.X), instr.X.Type()))

	case *ssa.Next:
		fr.set(instr, fr.get(instr.Iter).(iter).next())

	case *ssa.FieldAddr:
		fr.set(instr, i.fieldAddr(instr, fr.get(instr.X)))

	case *ssa.Field:
		fr.set(instr, fr.get(instr.X).(structure)[instr.Field])

	case *ssa.IndexAddr:
		fr.set(instr, i.indexAddr(instr, fr.get(instr.X), fr.get(instr.Index)))

	case *ssa.Index:
		x := fr.get(instr.X)
		switch x := x.(type) {
		case array:
			idx := i.boundedIndex(fr.get(instr.Index), len(x), "index")
			fr.set(instr, x[idx])
		case string:
			idx := i.boundedIndex(fr.get(instr.Index), len(x), "index")
			fr.set(instr, x[idx])
		default:
			panic(fmt.Sprintf("unexpected x type in Index: %T", x))
		}

	case *ssa.Lookup:
		if m, ok := fr.get(instr.X).(*omap); ok && i.race != nil {
			i.raceMap(fr, instr, m, false)
		}
		fr.set(instr, i.lookup(instr, fr.get(instr.X), fr.get(instr.Index)))

	case *ssa.MapUpdate:
		m := fr.get(instr.Map).(*omap)
		if m != nil && i.race != nil {
			i.raceMap(fr, instr, m, true)
		}
		if m == nil {
			panic(targetPanic{iface{t: i.runtimeErrorString, v: "assignment to entry in nil map"}})
		}
		m.insert(i, fr.get(instr.Key), fr.get(instr.Value))

	case *ssa.TypeAssert:
		fr.set(instr, typeAssert(fr.i, instr, fr.get(instr.X).(iface)))

	case *ssa.MakeClosure:
		var bindings []value
		for _, binding := range instr.Bindings {
			bindings = append(bindings, fr.get(binding))
		}
		fr.set(instr, &closure{instr.Fn.(*ssa.Function), bindings})

	case *ssa.Phi:
		panic("unreachable") // phis are processed at block entry

	case *ssa.Select:
		panic("select is not supported")

	default:
		panic(fmt.Sprintf("unexpected instruction: %T", instr))
	}
	return kNext
}

func prepareCall(fr *frame, call *ssa.CallCommon) (fn value, args []value) {
	v := fr.get(call.Value)
	if call.Method == nil {
		fn = v
	} else {
		recv := v.(iface)
		if recv.t == nil {
			fr.i.rtPanic("invalid memory address or nil pointer dereference (method invoked on nil interface)")
		}
		if _, ok := recv.v.(reflectStub); ok {
			// methods of the reflect.Type stub return zero values
			res := call.Method.Type().(*types.Signature).Results()
			return externalFn(func(fr *frame, args []value) value {
				if res.Len() == 0 {
					return nil
				}
				return zero(res)
			}), []value{recv.v}
		}
		if f := lookupMethod(fr.i, recv.t, call.Method); f == nil {
			panic(fmt.Sprintf("method set for dynamic type %v does not contain %s", recv.t, call.Method))
		} else {
			fn = f
		}
		args = append(args, recv.v)
	}
	for _, arg := range call.Args {
		args = append(args, fr.get(arg))
	}
	return
}

func call(i *Interp, caller *frame, callpos token.Pos, fn value, args []value) value {
	switch fn := fn.(type) {
	case *ssa.Function:
		if fn == nil {
			i.rtPanic("invalid memory address or nil pointer dereference (call of nil function)")
		}
		return callSSA(i, caller, callpos, fn, args, nil)
	case *closure:
		return callSSA(i, caller, callpos, fn.Fn, args, fn.Env)
	case *ssa.Builtin:
		return callBuiltin(caller, callpos, fn, args)
	case externalFn:
		return fn(caller, args)
	}
	panic(fmt.Sprintf("cannot call %T", fn))
}

func loc(fset *token.FileSet, pos token.Pos) string {
	if pos == token.NoPos {
		return ""
	}
	return " at " + fset.Position(pos).String()
}

func callSSA(i *Interp, caller *frame, callpos token.Pos, fn *ssa.Function, args []value, env []value) value {
	info := infoOf(fn)
	fr := &frame{
		i:       i,
		caller:  caller,
		fn:      fn,
		info:    info,
		callpos: callpos,
	}
	if caller != nil {
		fr.thr = caller.thr
		fr.depth = caller.depth + 1
	} else {
		fr.thr = i.cur
	}
	if i.cfg.Trace {
		fmt.Fprintf(os.Stderr, "%*scall %s\n", fr.depth, "", info.name)
	}
	if info.ext != nil {
		if r := info.ext(fr, args); r != (notHandled{}) {
			return r
		}
	}
	if fn.Synthetic == "package initializer" && fn.Pkg != nil && !i.cfg.InitPkgs[fn.Pkg.Pkg.Path()] {
		return nil
	}
	if fn.Blocks == nil {
		if fn.Synthetic != "" {
			panic("no code for synthetic function: " + info.name + " (" + fn.Synthetic + ")")
		}
		panic("no code for function: " + info.name)
	}
	if fn.TypeParams().Len() > 0 && len(fn.TypeArgs()) == 0 {
		panic("generic function body reached: " + info.name)
	}
	if fr.depth > 400 {
		i.abort("recursion-limit")
	}
	defer func() { i.funcs[fn] += fr.nsteps }()

	fr.env = make([]value, info.nregs)
	fr.block = fn.Blocks[0]
	fr.locals = make([]value, len(fn.Locals))
	for k, l := range fn.Locals {
		fr.locals[k] = zero(mustDeref(l.Type()))
		fr.env[info.regs[l]] = &fr.locals[k]
	}
	for k, p := range fn.Params {
		fr.env[info.regs[p]] = args[k]
	}
	for k, fv := range fn.FreeVars {
		fr.env[info.regs[fv]] = env[k]
	}
	for fr.block != nil {
		runFrame(fr)
	}
	return fr.result
}

func runFrame(fr *frame) {
	defer func() {
		if fr.block == nil {
			return // normal return
		}
		r := recover()
		if isAbort(r) {
			panic(r)
		}
		if re, ok := r.(runtime.Error); ok {
			// the interpreter itself failed
			panic(engineError{err: re, stack: string(debug.Stack()), where: fr.where()})
		}
		if s, ok := r.(string); ok {
			panic(engineError{err: s, stack: string(debug.Stack()), where: fr.where()})
		}
		fr.panicking = true
		fr.panic = r
		fr.runDefers()
		fr.block = fr.fn.Recover
	}()

	for {
		nonPhis := executePhis(fr)
		for _, instr := range nonPhis {
			fr.i.curInstr = instr
			if visitInstr(fr, instr) == kReturn {
				return
			}
		}
	}
}

func (fr *frame) where() string {
	if fr.i.curInstr != nil {
		return fr.fn.String() + loc(fr.fn.Prog.Fset, fr.i.curInstr.Pos())
	}
	return fr.fn.String()
}

func executePhis(fr *frame) []ssa.Instruction {
	firstNonPhi := -1
	for i, instr := range fr.block.Instrs {
		if _, ok := instr.(*ssa.Phi); !ok {
			firstNonPhi = i
			break
		}
	}
	nonPhis := fr.block.Instrs[firstNonPhi:]
	if firstNonPhi > 0 {
		phis := fr.block.Instrs[:firstNonPhi]
		predIndex := slices.Index(fr.block.Preds, fr.prevBlock)
		fr.phitemps = fr.phitemps[:0]
		for _, phi := range phis {
			phi := phi.(*ssa.Phi)
			fr.phitemps = append(fr.phitemps, fr.get(phi.Edges[predIndex]))
		}
		for i, phi := range phis {
			fr.set(phi.(*ssa.Phi), fr.phitemps[i])
		}
	}
	return nonPhis
}

func doRecover(caller *frame) value {
	if caller != nil && !caller.panicking &&
		caller.caller != nil && caller.caller.panicking {
		caller.caller.panicking = false
		p := caller.caller.panic
		caller.caller.panic = nil
		switch p := p.(type) {
		case targetPanic:
			return p.v
		default:
			panic(fmt.Sprintf("unexpected panic type %T in target call to recover()", p))
		}
	}
	return iface{}
}
