package sym

// One live SMT solver process (z3 -in / cvc5 --incremental) per worker.

import (
	"bufio"
	"fmt"
	"io"
	"os"
	"os/exec"
	"strconv"
	"strings"
	"time"
)

type SatResult int

const (
	Unsat SatResult = iota
	Sat
	Unknown
)

func (r SatResult) String() string { return [...]string{"unsat", "sat", "unknown"}[r] }

type Solver struct {
	Path      string
	Args      []string
	TimeoutMs int

	cmd     *exec.Cmd
	in      io.WriteCloser
	out     *bufio.Reader
	emitted map[int]bool // term ids defined in the current scope (per run)
	buf     strings.Builder

	// statistics
	Queries  [3]int
	Errors   int
	WallNs   int64
	LastErr  string
	Dump     io.Writer // optional transcript
	nqueries int

	ctxLog     []string // everything sent at scope depth 0 since the last reset
	depth      int
	Fallbacks  int // queries re-decided by a one-shot solver run
	FallbackMs int
}

func NewSolver(path string, timeoutMs int) (*Solver, error) {
	s := &Solver{Path: path, TimeoutMs: timeoutMs}
	switch {
	case strings.Contains(path, "cvc5"):
		s.Args = []string{"--incremental", "--lang=smt2", "--produce-models"}
	default:
		s.Args = []string{"-in", "-smt2"}
	}
	if err := s.start(); err != nil {
		return nil, err
	}
	return s, nil
}

func (s *Solver) start() error {
	s.cmd = exec.Command(s.Path, s.Args...)
	in, err := s.cmd.StdinPipe()
	if err != nil {
		return err
	}
	out, err := s.cmd.StdoutPipe()
	if err != nil {
		return err
	}
	s.cmd.Stderr = nil
	if err := s.cmd.Start(); err != nil {
		return err
	}
	s.in = in
	s.out = bufio.NewReaderSize(out, 1<<16)
	s.emitted = map[int]bool{}
	s.preamble()
	return nil
}

func (s *Solver) preamble() {
	if strings.Contains(s.Path, "cvc5") {
		s.send("(set-logic QF_BV)\n")
		if s.TimeoutMs > 0 {
			s.send(fmt.Sprintf("(set-option :tlimit-per %d)\n", s.TimeoutMs))
		}
	} else {
		s.send("(set-option :produce-models true)\n")
		if s.TimeoutMs > 0 {
			s.send(fmt.Sprintf("(set-option :timeout %d)\n", s.TimeoutMs))
		}
	}
}

func (s *Solver) Close() {
	if s.cmd != nil {
		s.in.Close()
		s.cmd.Process.Kill()
		s.cmd.Wait()
		s.cmd = nil
	}
}

func (s *Solver) send(str string) {
	if s.depth == 0 && !strings.HasPrefix(str, "(check-sat") && !strings.HasPrefix(str, "(reset") && !strings.HasPrefix(str, "(push") && !strings.HasPrefix(str, "(pop") {
		s.ctxLog = append(s.ctxLog, str)
	}
	if s.Dump != nil {
		io.WriteString(s.Dump, str)
	}
	if _, err := io.WriteString(s.in, str); err != nil {
		s.LastErr = err.Error()
		s.Errors++
	}
}

// Reset forgets everything (new path).
func (s *Solver) Reset() {
	s.send("(reset)\n")
	s.emitted = map[int]bool{}
	s.ctxLog = s.ctxLog[:0]
	s.depth = 0
	s.preamble()
}

// oneShot re-decides (context ∧ extra) with fresh solver processes in file mode
// (their preprocessing is much stronger than the incremental mode's).
func (s *Solver) oneShot(extra *Term) SatResult {
	if s.FallbackMs <= 0 {
		return Unknown
	}
	t0 := time.Now()
	defer func() { s.WallNs += int64(time.Since(t0)) }()
	var sb strings.Builder
	for _, l := range s.ctxLog {
		if strings.HasPrefix(l, "(set-option") {
			continue
		}
		sb.WriteString(l)
	}
	if extra != nil {
		sb.WriteString("(assert " + extra.ref() + ")\n")
	}
	sb.WriteString("(check-sat)\n")
	f, err := os.CreateTemp("", "gosym-*.smt2")
	if err != nil {
		return Unknown
	}
	defer os.Remove(f.Name())
	f.WriteString(sb.String())
	f.Close()
	secs := s.FallbackMs / 1000
	for _, cmd := range [][]string{
		{"z3", fmt.Sprintf("-T:%d", secs), f.Name()},
		{"cvc5", fmt.Sprintf("--tlimit=%d", s.FallbackMs), "--lang=smt2", f.Name()},
	} {
		out, _ := exec.Command(cmd[0], cmd[1:]...).CombinedOutput()
		txt := string(out)
		if strings.Contains(txt, "(error") {
			continue
		}
		for _, line := range strings.Split(txt, "\n") {
			switch strings.TrimSpace(line) {
			case "unsat":
				s.Fallbacks++
				return Unsat
			case "sat":
				s.Fallbacks++
				return Sat
			}
		}
	}
	return Unknown
}

// define makes sure t and all its sub-terms are defined in the solver.
func (s *Solver) define(t *Term) {
	if t.Op == OpConst || s.emitted[t.ID] {
		return
	}
	// iterative post-order
	type fr struct {
		t *Term
		i int
	}
	st := []fr{{t, 0}}
	s.buf.Reset()
	for len(st) > 0 {
		top := &st[len(st)-1]
		if top.i < 3 && top.t.A[top.i] != nil {
			ch := top.t.A[top.i]
			top.i++
			if ch.Op != OpConst && !s.emitted[ch.ID] {
				st = append(st, fr{ch, 0})
			}
			continue
		}
		n := top.t
		st = st[:len(st)-1]
		if s.emitted[n.ID] {
			continue
		}
		s.emitted[n.ID] = true
		if n.Op == OpVar {
			fmt.Fprintf(&s.buf, "(declare-const %s %s)\n", quoteName(n.Name), sortName(n.W))
		} else {
			fmt.Fprintf(&s.buf, "(define-fun t%d () %s %s)\n", n.ID, sortName(n.W), n.body())
		}
	}
	s.send(s.buf.String())
}

// Assert adds t permanently (until Reset).
func (s *Solver) Assert(t *Term) {
	if t.IsConst() && t.Val != 0 {
		return
	}
	s.define(t)
	s.send("(assert " + t.ref() + ")\n")
}

// Check decides satisfiability of (asserted ∧ extra); extra may be nil.
func (s *Solver) Check(extra *Term) SatResult {
	t0 := time.Now()
	if extra != nil {
		if extra.IsConst() {
			if extra.Val == 0 {
				return Unsat
			}
			extra = nil
		}
	}
	if extra != nil {
		s.define(extra)
		s.depth++
		s.send("(push 1)\n(assert " + extra.ref() + ")\n(check-sat)\n")
	} else {
		s.send("(check-sat)\n")
	}
	res := s.readResult()
	if extra != nil {
		s.send("(pop 1)\n")
		s.depth--
	}
	if res == Unknown {
		res = s.oneShot(extra)
	}
	s.Queries[res]++
	s.nqueries++
	s.WallNs += int64(time.Since(t0))
	return res
}

// CheckModel is Check that also returns the values of terms when sat.
func (s *Solver) CheckModel(extra *Term, terms []*Term) (SatResult, []uint64) {
	t0 := time.Now()
	if extra != nil && extra.IsConst() {
		if extra.Val == 0 {
			return Unsat, nil
		}
		extra = nil
	}
	for _, v := range terms {
		s.define(v)
	}
	s.depth++
	if extra != nil {
		s.define(extra)
		s.send("(push 1)\n(assert " + extra.ref() + ")\n(check-sat)\n")
	} else {
		s.send("(push 1)\n(check-sat)\n")
	}
	res := s.readResult()
	var vals []uint64
	if res == Sat && len(terms) > 0 {
		var sb strings.Builder
		sb.WriteString("(get-value (")
		for _, v := range terms {
			sb.WriteString(v.ref())
			sb.WriteByte(' ')
		}
		sb.WriteString("))\n")
		s.send(sb.String())
		txt := s.readSexp()
		vals = parseValues(txt)
		if len(vals) != len(terms) {
			s.LastErr = "cannot parse model: " + txt
			s.Errors++
			res = Unknown
			vals = nil
		}
	}
	s.send("(pop 1)\n")
	s.depth--
	s.Queries[res]++
	s.nqueries++
	s.WallNs += int64(time.Since(t0))
	return res, vals
}

func (s *Solver) readResult() SatResult {
	for {
		line, err := s.out.ReadString('\n')
		if err != nil {
			s.LastErr = "solver died: " + err.Error()
			s.Errors++
			// restart so later queries do not hang
			s.Close()
			s.start()
			return Unknown
		}
		line = strings.TrimSpace(line)
		if s.Dump != nil {
			io.WriteString(s.Dump, "; -> "+line+"\n")
		}
		switch line {
		case "sat":
			return Sat
		case "unsat":
			return Unsat
		case "unknown", "timeout":
			return Unknown
		case "":
			continue
		}
		if strings.HasPrefix(line, "(error") {
			s.LastErr = line
			s.Errors++
			continue
		}
	}
}

func (s *Solver) readSexp() string {
	var sb strings.Builder
	depth := 0
	started := false
	for {
		line, err := s.out.ReadString('\n')
		if err != nil {
			s.LastErr = "solver died: " + err.Error()
			s.Errors++
			return sb.String()
		}
		if strings.HasPrefix(strings.TrimSpace(line), "(error") {
			s.LastErr = line
			s.Errors++
			return ""
		}
		inBar := false
		for _, ch := range line {
			switch {
			case ch == '|':
				inBar = !inBar
			case inBar:
			case ch == '(':
				depth++
				started = true
			case ch == ')':
				depth--
			}
		}
		sb.WriteString(line)
		if started && depth <= 0 {
			return sb.String()
		}
	}
}

// parseValues extracts the value of every (term value) pair of a get-value answer.
func parseValues(txt string) []uint64 {
	// tokenise
	var toks []string
	for k := 0; k < len(txt); {
		ch := txt[k]
		switch {
		case ch == '(' || ch == ')':
			toks = append(toks, string(ch))
			k++
		case ch == ' ' || ch == '\n' || ch == '\t' || ch == '\r':
			k++
		case ch == '|':
			e := strings.IndexByte(txt[k+1:], '|')
			if e < 0 {
				return nil
			}
			toks = append(toks, txt[k:k+e+2])
			k += e + 2
		default:
			e := k
			for e < len(txt) && !strings.ContainsRune("() \n\t\r", rune(txt[e])) {
				e++
			}
			toks = append(toks, txt[k:e])
			k = e
		}
	}
	// skip one sexp starting at p, return index after it
	var skip func(p int) int
	skip = func(p int) int {
		if p >= len(toks) {
			return p
		}
		if toks[p] != "(" {
			return p + 1
		}
		p++
		for p < len(toks) && toks[p] != ")" {
			p = skip(p)
		}
		return p + 1
	}
	var out []uint64
	if len(toks) == 0 || toks[0] != "(" {
		return nil
	}
	p := 1
	for p < len(toks) && toks[p] == "(" {
		p++         // into pair
		p = skip(p) // key
		if p >= len(toks) {
			return nil
		}
		tok := toks[p]
		var u uint64
		switch {
		case tok == "true":
			u = 1
		case tok == "false":
			u = 0
		case strings.HasPrefix(tok, "#x"):
			u, _ = strconv.ParseUint(tok[2:], 16, 64)
		case strings.HasPrefix(tok, "#b"):
			u, _ = strconv.ParseUint(tok[2:], 2, 64)
		case tok == "(": // (_ bv123 64)
			if p+2 < len(toks) {
				u, _ = strconv.ParseUint(strings.TrimPrefix(toks[p+2], "bv"), 10, 64)
			}
		default:
			return nil
		}
		out = append(out, u)
		p = skip(p)
		if p >= len(toks) || toks[p] != ")" {
			return nil
		}
		p++
	}
	return out
}
