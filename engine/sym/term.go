package sym

// Hash-consed SMT terms (Bool and fixed-width bit-vectors) with constant
// folding.  A Ctx belongs to exactly one path execution.

import (
	"fmt"
	"math/bits"
	"strings"
)

type Op uint8

const (
	OpConst Op = iota // BV or Bool constant (val)
	OpVar             // declared constant (name)
	OpAdd
	OpSub
	OpMul
	OpUDiv
	OpURem
	OpSDiv
	OpSRem
	OpAnd
	OpOr
	OpXor
	OpShl
	OpLShr
	OpAShr
	OpBNot
	OpNeg
	OpExtract // val = hi<<8|lo
	OpConcat
	OpZExt // to width w
	OpSExt
	OpIte
	OpEq
	OpULt
	OpULe
	OpSLt
	OpSLe
	OpNot  // bool
	OpLAnd // bool
	OpLOr  // bool
)

var opNames = [...]string{"const", "var", "bvadd", "bvsub", "bvmul", "bvudiv", "bvurem", "bvsdiv", "bvsrem",
	"bvand", "bvor", "bvxor", "bvshl", "bvlshr", "bvashr", "bvnot", "bvneg", "extract", "concat", "zext", "sext",
	"ite", "=", "bvult", "bvule", "bvslt", "bvsle", "not", "and", "or"}

// Term is an immutable DAG node.  W == 0 means sort Bool.
type Term struct {
	Op   Op
	W    int
	A    [3]*Term
	Val  uint64
	Name string
	ID   int
}

type termKey struct {
	op         Op
	w          int
	a0, a1, a2 int
	val        uint64
	name       string
}

type Ctx struct {
	tab   map[termKey]*Term
	n     int
	Vars  []*Term
	byNam map[string]*Term
}

func NewCtx() *Ctx {
	return &Ctx{tab: map[termKey]*Term{}, byNam: map[string]*Term{}}
}

func (c *Ctx) NumTerms() int { return c.n }

func id(t *Term) int {
	if t == nil {
		return -1
	}
	return t.ID
}

func (c *Ctx) mk(op Op, w int, val uint64, name string, a ...*Term) *Term {
	var k termKey
	k.op, k.w, k.val, k.name = op, w, val, name
	k.a0, k.a1, k.a2 = -1, -1, -1
	var arr [3]*Term
	for i, x := range a {
		arr[i] = x
	}
	k.a0, k.a1, k.a2 = id(arr[0]), id(arr[1]), id(arr[2])
	if t, ok := c.tab[k]; ok {
		return t
	}
	t := &Term{Op: op, W: w, A: arr, Val: val, Name: name, ID: c.n}
	c.n++
	c.tab[k] = t
	return t
}

func mask(w int) uint64 {
	if w >= 64 {
		return ^uint64(0)
	}
	return (uint64(1) << uint(w)) - 1
}

func (t *Term) IsConst() bool { return t.Op == OpConst }
func (t *Term) IsBool() bool  { return t.W == 0 }

func (c *Ctx) BV(w int, v uint64) *Term { return c.mk(OpConst, w, v&mask(w), "") }
func (c *Ctx) Bool(b bool) *Term {
	if b {
		return c.mk(OpConst, 0, 1, "")
	}
	return c.mk(OpConst, 0, 0, "")
}

// Var declares (or returns) the variable with the given name.
func (c *Ctx) Var(name string, w int) *Term {
	if t, ok := c.byNam[name]; ok {
		if t.W != w {
			panic(fmt.Sprintf("variable %s redeclared with width %d (was %d)", name, w, t.W))
		}
		return t
	}
	t := c.mk(OpVar, w, 0, name)
	c.byNam[name] = t
	c.Vars = append(c.Vars, t)
	return t
}

func sext64(v uint64, w int) int64 {
	if w >= 64 {
		return int64(v)
	}
	sh := uint(64 - w)
	return int64(v<<sh) >> sh
}

func (c *Ctx) Bin(op Op, x, y *Term) *Term {
	if x.W != y.W {
		panic(fmt.Sprintf("width mismatch in %s: %d vs %d", opNames[op], x.W, y.W))
	}
	w := x.W
	if x.IsConst() && y.IsConst() {
		a, b := x.Val, y.Val
		m := mask(w)
		switch op {
		case OpAdd:
			return c.BV(w, a+b)
		case OpSub:
			return c.BV(w, a-b)
		case OpMul:
			return c.BV(w, a*b)
		case OpUDiv:
			if b == 0 {
				return c.BV(w, m)
			}
			return c.BV(w, a/b)
		case OpURem:
			if b == 0 {
				return c.BV(w, a)
			}
			return c.BV(w, a%b)
		case OpSDiv:
			if b != 0 {
				sa, sb := sext64(a, w), sext64(b, w)
				if !(sb == -1 && sa == sext64(uint64(1)<<uint(w-1), w)) {
					return c.BV(w, uint64(sa/sb))
				}
				return c.BV(w, a)
			}
		case OpSRem:
			if b != 0 {
				sa, sb := sext64(a, w), sext64(b, w)
				if sb == -1 {
					return c.BV(w, 0)
				}
				return c.BV(w, uint64(sa%sb))
			}
		case OpAnd:
			return c.BV(w, a&b)
		case OpOr:
			return c.BV(w, a|b)
		case OpXor:
			return c.BV(w, a^b)
		case OpShl:
			if b >= uint64(w) {
				return c.BV(w, 0)
			}
			return c.BV(w, a<<b)
		case OpLShr:
			if b >= uint64(w) {
				return c.BV(w, 0)
			}
			return c.BV(w, a>>b)
		case OpAShr:
			sa := sext64(a, w)
			if b >= uint64(w) {
				b = uint64(w - 1)
			}
			return c.BV(w, uint64(sa>>b))
		}
	}
	// identities
	switch op {
	case OpAdd:
		if x.IsConst() && x.Val == 0 {
			return y
		}
		if y.IsConst() && y.Val == 0 {
			return x
		}
		if x.IsConst() { // canonical: constant on the right
			x, y = y, x
		}
		// (a + c1) + c2 => a + (c1+c2)
		if y.IsConst() && x.Op == OpAdd && x.A[1].IsConst() {
			return c.Bin(OpAdd, x.A[0], c.BV(w, x.A[1].Val+y.Val))
		}
	case OpSub:
		if y.IsConst() && y.Val == 0 {
			return x
		}
		if x == y {
			return c.BV(w, 0)
		}
		if y.IsConst() {
			return c.Bin(OpAdd, x, c.BV(w, -y.Val))
		}
	case OpMul:
		if x.IsConst() {
			x, y = y, x
		}
		if y.IsConst() {
			if y.Val == 0 {
				return y
			}
			if y.Val == 1 {
				return x
			}
			if bits.OnesCount64(y.Val) == 1 {
				return c.Bin(OpShl, x, c.BV(w, uint64(bits.TrailingZeros64(y.Val))))
			}
		}
	case OpUDiv:
		if y.IsConst() && y.Val == 1 {
			return x
		}
		if y.IsConst() && bits.OnesCount64(y.Val) == 1 {
			return c.Bin(OpLShr, x, c.BV(w, uint64(bits.TrailingZeros64(y.Val))))
		}
	case OpURem:
		if y.IsConst() && y.Val != 0 && bits.OnesCount64(y.Val) == 1 {
			return c.Bin(OpAnd, x, c.BV(w, y.Val-1))
		}
	case OpAnd:
		if x.IsConst() {
			x, y = y, x
		}
		if y.IsConst() {
			if y.Val == 0 {
				return y
			}
			if y.Val == mask(w) {
				return x
			}
			// zext(a) & m where m covers all bits of a
			if x.Op == OpZExt && y.Val&mask(x.A[0].W) == mask(x.A[0].W) {
				return x
			}
		}
		if x == y {
			return x
		}
	case OpOr:
		if x.IsConst() {
			x, y = y, x
		}
		if y.IsConst() {
			if y.Val == 0 {
				return x
			}
			if y.Val == mask(w) {
				return y
			}
		}
		if x == y {
			return x
		}
	case OpXor:
		if x.IsConst() {
			x, y = y, x
		}
		if y.IsConst() && y.Val == 0 {
			return x
		}
		if x == y {
			return c.BV(w, 0)
		}
	case OpShl, OpLShr, OpAShr:
		if y.IsConst() {
			if y.Val == 0 {
				return x
			}
			if y.Val >= uint64(w) && op != OpAShr {
				return c.BV(w, 0)
			}
			k := int(y.Val)
			if op == OpLShr && k < w {
				// lshr(x,k) = zext(extract(w-1,k,x))
				return c.ZExt(c.Extract(x, w-1, k), w)
			}
			if op == OpShl && k < w {
				// shl(x,k) = concat(extract(w-1-k,0,x), 0_k)
				return c.Concat(c.Extract(x, w-1-k, 0), c.BV(k, 0))
			}
		}
		if x.IsConst() && x.Val == 0 {
			return x
		}
	}
	return c.mk(op, w, 0, "", x, y)
}

func (c *Ctx) BNot(x *Term) *Term {
	if x.IsConst() {
		return c.BV(x.W, ^x.Val)
	}
	if x.Op == OpBNot {
		return x.A[0]
	}
	return c.mk(OpBNot, x.W, 0, "", x)
}

func (c *Ctx) Neg(x *Term) *Term {
	if x.IsConst() {
		return c.BV(x.W, -x.Val)
	}
	return c.mk(OpNeg, x.W, 0, "", x)
}

func (c *Ctx) Extract(x *Term, hi, lo int) *Term {
	if lo == 0 && hi == x.W-1 {
		return x
	}
	w := hi - lo + 1
	if x.IsConst() {
		return c.BV(w, x.Val>>uint(lo))
	}
	switch x.Op {
	case OpExtract:
		l0 := int(x.Val & 0xff)
		return c.Extract(x.A[0], hi+l0, lo+l0)
	case OpConcat:
		lw := x.A[1].W
		if hi < lw {
			return c.Extract(x.A[1], hi, lo)
		}
		if lo >= lw {
			return c.Extract(x.A[0], hi-lw, lo-lw)
		}
	case OpZExt:
		iw := x.A[0].W
		if hi < iw {
			return c.Extract(x.A[0], hi, lo)
		}
		if lo >= iw {
			return c.BV(w, 0)
		}
		return c.ZExt(c.Extract(x.A[0], iw-1, lo), w)
	case OpSExt:
		iw := x.A[0].W
		if hi < iw {
			return c.Extract(x.A[0], hi, lo)
		}
	case OpOr, OpAnd, OpXor:
		// distribute over bitwise ops when it removes structure (byte extraction)
		a := c.Extract(x.A[0], hi, lo)
		b := c.Extract(x.A[1], hi, lo)
		return c.Bin(x.Op, a, b)
	}
	return c.mk(OpExtract, w, uint64(hi)<<8|uint64(lo), "", x)
}

func (c *Ctx) Concat(hi, lo *Term) *Term {
	w := hi.W + lo.W
	if hi.W == 0 || lo.W == 0 {
		panic("concat with bool")
	}
	if hi.IsConst() && lo.IsConst() && w <= 64 {
		return c.BV(w, hi.Val<<uint(lo.W)|lo.Val)
	}
	if hi.IsConst() && hi.Val == 0 {
		return c.ZExt(lo, w)
	}
	// concat(extract(h,m+1,x), extract(m,l,x)) = extract(h,l,x)
	if hi.Op == OpExtract && lo.Op == OpExtract && hi.A[0] == lo.A[0] {
		hl := int(hi.Val & 0xff)
		lh := int(lo.Val >> 8)
		if hl == lh+1 {
			return c.Extract(hi.A[0], int(hi.Val>>8), int(lo.Val&0xff))
		}
	}
	return c.mk(OpConcat, w, 0, "", hi, lo)
}

func (c *Ctx) ZExt(x *Term, w int) *Term {
	if x.W == w {
		return x
	}
	if x.W > w {
		panic("zext to smaller width")
	}
	if x.IsConst() {
		return c.BV(w, x.Val)
	}
	if x.Op == OpZExt {
		return c.ZExt(x.A[0], w)
	}
	return c.mk(OpZExt, w, 0, "", x)
}

func (c *Ctx) SExt(x *Term, w int) *Term {
	if x.W == w {
		return x
	}
	if x.W > w {
		panic("sext to smaller width")
	}
	if x.IsConst() {
		return c.BV(w, uint64(sext64(x.Val, x.W)))
	}
	if x.Op == OpZExt {
		return c.ZExt(x.A[0], w)
	}
	return c.mk(OpSExt, w, 0, "", x)
}

func (c *Ctx) Ite(cond, a, b *Term) *Term {
	if cond.IsConst() {
		if cond.Val != 0 {
			return a
		}
		return b
	}
	if a == b {
		return a
	}
	if a.W == 0 {
		// boolean ite
		if a.IsConst() && b.IsConst() {
			if a.Val != 0 {
				return cond
			}
			return c.Not(cond)
		}
	}
	return c.mk(OpIte, a.W, 0, "", cond, a, b)
}

func (c *Ctx) Eq(x, y *Term) *Term {
	if x.W != y.W {
		panic(fmt.Sprintf("eq width mismatch %d vs %d", x.W, y.W))
	}
	if x == y {
		return c.Bool(true)
	}
	if x.IsConst() && y.IsConst() {
		return c.Bool(x.Val == y.Val)
	}
	if x.IsConst() {
		x, y = y, x
	}
	if x.W == 0 && y.IsConst() {
		if y.Val != 0 {
			return x
		}
		return c.Not(x)
	}
	// zext(a) == const that does not fit
	if y.IsConst() && x.Op == OpZExt {
		iw := x.A[0].W
		if y.Val&^mask(iw) != 0 {
			return c.Bool(false)
		}
		return c.Eq(x.A[0], c.BV(iw, y.Val))
	}
	if x.ID > y.ID && !y.IsConst() {
		x, y = y, x
	}
	return c.mk(OpEq, 0, 0, "", x, y)
}

func (c *Ctx) Cmp(op Op, x, y *Term) *Term {
	if x.W != y.W {
		panic("cmp width mismatch")
	}
	if x.IsConst() && y.IsConst() {
		switch op {
		case OpULt:
			return c.Bool(x.Val < y.Val)
		case OpULe:
			return c.Bool(x.Val <= y.Val)
		case OpSLt:
			return c.Bool(sext64(x.Val, x.W) < sext64(y.Val, y.W))
		case OpSLe:
			return c.Bool(sext64(x.Val, x.W) <= sext64(y.Val, y.W))
		}
	}
	if x == y {
		return c.Bool(op == OpULe || op == OpSLe)
	}
	if op == OpULt && y.IsConst() && y.Val == 0 {
		return c.Bool(false)
	}
	if op == OpULe && x.IsConst() && x.Val == 0 {
		return c.Bool(true)
	}
	return c.mk(op, 0, 0, "", x, y)
}

func (c *Ctx) Not(x *Term) *Term {
	if x.IsConst() {
		return c.Bool(x.Val == 0)
	}
	if x.Op == OpNot {
		return x.A[0]
	}
	return c.mk(OpNot, 0, 0, "", x)
}

func (c *Ctx) And(x, y *Term) *Term {
	if x.IsConst() {
		if x.Val != 0 {
			return y
		}
		return x
	}
	if y.IsConst() {
		if y.Val != 0 {
			return x
		}
		return y
	}
	if x == y {
		return x
	}
	return c.mk(OpLAnd, 0, 0, "", x, y)
}

func (c *Ctx) Or(x, y *Term) *Term {
	if x.IsConst() {
		if x.Val != 0 {
			return x
		}
		return y
	}
	if y.IsConst() {
		if y.Val != 0 {
			return y
		}
		return x
	}
	if x == y {
		return x
	}
	return c.mk(OpLOr, 0, 0, "", x, y)
}

// ---------------------------------------------------------------- printing

func sortName(w int) string {
	if w == 0 {
		return "Bool"
	}
	return fmt.Sprintf("(_ BitVec %d)", w)
}

func constLit(t *Term) string {
	if t.W == 0 {
		if t.Val != 0 {
			return "true"
		}
		return "false"
	}
	if t.W%4 == 0 {
		return fmt.Sprintf("#x%0*x", t.W/4, t.Val)
	}
	return fmt.Sprintf("#b%0*b", t.W, t.Val)
}

func quoteName(n string) string {
	return "|" + strings.NewReplacer("|", "_", "\\", "_").Replace(n) + "|"
}

// ref is how a term is referred to from other definitions.
func (t *Term) ref() string {
	switch t.Op {
	case OpConst:
		return constLit(t)
	case OpVar:
		return quoteName(t.Name)
	}
	return fmt.Sprintf("t%d", t.ID)
}

// body prints the defining expression of a non-leaf term.
func (t *Term) body() string {
	a := t.A
	switch t.Op {
	case OpExtract:
		return fmt.Sprintf("((_ extract %d %d) %s)", t.Val>>8, t.Val&0xff, a[0].ref())
	case OpZExt:
		return fmt.Sprintf("((_ zero_extend %d) %s)", t.W-a[0].W, a[0].ref())
	case OpSExt:
		return fmt.Sprintf("((_ sign_extend %d) %s)", t.W-a[0].W, a[0].ref())
	case OpBNot, OpNeg, OpNot:
		return fmt.Sprintf("(%s %s)", opNames[t.Op], a[0].ref())
	case OpIte:
		return fmt.Sprintf("(ite %s %s %s)", a[0].ref(), a[1].ref(), a[2].ref())
	}
	return fmt.Sprintf("(%s %s %s)", opNames[t.Op], a[0].ref(), a[1].ref())
}

// String renders a term as a (possibly large) nested expression; for debugging
// and evidence samples only.
func (t *Term) String() string {
	return t.str(0)
}

func (t *Term) str(d int) string {
	if t.Op == OpConst || t.Op == OpVar {
		return t.ref()
	}
	if d > 6 {
		return "..."
	}
	a := t.A
	switch t.Op {
	case OpExtract:
		return fmt.Sprintf("((_ extract %d %d) %s)", t.Val>>8, t.Val&0xff, a[0].str(d+1))
	case OpZExt:
		return fmt.Sprintf("((_ zero_extend %d) %s)", t.W-a[0].W, a[0].str(d+1))
	case OpSExt:
		return fmt.Sprintf("((_ sign_extend %d) %s)", t.W-a[0].W, a[0].str(d+1))
	case OpBNot, OpNeg, OpNot:
		return fmt.Sprintf("(%s %s)", opNames[t.Op], a[0].str(d+1))
	case OpIte:
		return fmt.Sprintf("(ite %s %s %s)", a[0].str(d+1), a[1].str(d+1), a[2].str(d+1))
	}
	return fmt.Sprintf("(%s %s %s)", opNames[t.Op], a[0].str(d+1), a[1].str(d+1))
}
