package sym

// Symbolic extensions of the interpreter's operators, and typed views onto
// byte buffers (the result of unsafe casts of on-disk structures).

import (
	"fmt"
	"go/token"
	"go/types"
	"unsafe"

	"golang.org/x/tools/go/ssa"
)

var stdSizes = types.StdSizes{WordSize: 8, MaxAlign: 8}

// viewPtr is a pointer into a byte buffer, produced by bin.UnsafeCastStruct.
// The pointee type always comes from the instruction that uses the pointer.
type viewPtr struct {
	mem []value // bytes from the pointed-to address to the end of the buffer
}

func (v viewPtr) isNil() bool { return v.mem == nil }

// intInfo describes a basic scalar type: width (0 = bool) and signedness.
func intInfo(t types.Type) (w int, signed bool, ok bool) {
	b, isB := t.Underlying().(*types.Basic)
	if !isB {
		return 0, false, false
	}
	switch b.Kind() {
	case types.Bool, types.UntypedBool:
		return 0, false, true
	case types.Int, types.Int64, types.UntypedInt:
		return 64, true, true
	case types.Int8:
		return 8, true, true
	case types.Int16:
		return 16, true, true
	case types.Int32, types.UntypedRune:
		return 32, true, true
	case types.Uint, types.Uint64, types.Uintptr:
		return 64, false, true
	case types.Uint8:
		return 8, false, true
	case types.Uint16:
		return 16, false, true
	case types.Uint32:
		return 32, false, true
	}
	return 0, false, false
}

// toTerm converts a scalar value into a term.
func (i *Interp) toTerm(v value) *Term {
	c := i.ctx
	switch v := v.(type) {
	case *Term:
		return v
	case bool:
		return c.Bool(v)
	case int:
		return c.BV(64, uint64(v))
	case int8:
		return c.BV(8, uint64(v))
	case int16:
		return c.BV(16, uint64(v))
	case int32:
		return c.BV(32, uint64(v))
	case int64:
		return c.BV(64, uint64(v))
	case uint:
		return c.BV(64, uint64(v))
	case uint8:
		return c.BV(8, uint64(v))
	case uint16:
		return c.BV(16, uint64(v))
	case uint32:
		return c.BV(32, uint64(v))
	case uint64:
		return c.BV(64, v)
	case uintptr:
		return c.BV(64, uint64(v))
	}
	panic(fmt.Sprintf("toTerm: unexpected %T", v))
}

// fromConst converts a constant term back into the Go value of basic type t.
func fromConst(t types.Type, u uint64) value {
	b := t.Underlying().(*types.Basic)
	switch b.Kind() {
	case types.Bool, types.UntypedBool:
		return u != 0
	case types.Int, types.UntypedInt:
		return int(u)
	case types.Int8:
		return int8(u)
	case types.Int16:
		return int16(u)
	case types.Int32, types.UntypedRune:
		return int32(u)
	case types.Int64:
		return int64(u)
	case types.Uint:
		return uint(u)
	case types.Uint8:
		return uint8(u)
	case types.Uint16:
		return uint16(u)
	case types.Uint32:
		return uint32(u)
	case types.Uint64:
		return u
	case types.Uintptr:
		return uintptr(u)
	}
	panic(fmt.Sprintf("fromConst: unexpected type %v", t))
}

// norm returns a concrete Go value when t is constant, else the term itself.
func norm(t types.Type, x *Term) value {
	if x.IsConst() {
		return fromConst(t, x.Val)
	}
	return x
}

func (i *Interp) binop(op token.Token, t types.Type, x, y value) value {
	_, xs := x.(*Term)
	_, ys := y.(*Term)
	if !xs && !ys {
		switch op {
		case token.EQL, token.NEQ:
			_, xc := x.(nilChan)
			if xc || isSymbolic(x) || isSymbolic(y) || isView(x) || isView(y) {
				r := i.equalsV(t, x, y)
				if op == token.NEQ {
					return i.notV(r)
				}
				return r
			}
		case token.QUO, token.REM:
			if _, _, ok := intInfo(t); ok && asInt64(y) == 0 {
				i.rtPanic("integer divide by zero")
			}
		}
		return binop(op, t, x, y)
	}
	c := i.ctx
	w, signed, ok := intInfo(t)
	if !ok {
		panic(fmt.Sprintf("symbolic binop %s on type %v", op, t))
	}
	a := i.toTerm(x)
	var b *Term
	switch op {
	case token.SHL, token.SHR:
		b = i.toTerm(y)
		// bring the shift count to the width of x, saturating
		if b.W < a.W {
			b = c.ZExt(b, a.W)
		} else if b.W > a.W {
			big := c.Not(c.Cmp(OpULt, b, c.BV(b.W, uint64(a.W))))
			b = c.Ite(big, c.BV(a.W, uint64(a.W)), c.Extract(b, a.W-1, 0))
		}
		var r *Term
		if op == token.SHL {
			r = c.Bin(OpShl, a, b)
		} else if signed {
			r = c.Bin(OpAShr, a, b)
		} else {
			r = c.Bin(OpLShr, a, b)
		}
		return norm(t, r)
	}
	b = i.toTerm(y)
	var r *Term
	switch op {
	case token.ADD:
		r = c.Bin(OpAdd, a, b)
	case token.SUB:
		r = c.Bin(OpSub, a, b)
	case token.MUL:
		r = c.Bin(OpMul, a, b)
	case token.QUO, token.REM:
		if i.branch(c.Eq(b, c.BV(w, 0))) {
			i.rtPanic("integer divide by zero")
		}
		switch {
		case op == token.QUO && signed:
			r = c.Bin(OpSDiv, a, b)
		case op == token.QUO:
			r = c.Bin(OpUDiv, a, b)
		case signed:
			r = c.Bin(OpSRem, a, b)
		default:
			r = c.Bin(OpURem, a, b)
		}
	case token.AND:
		if w == 0 {
			r = c.And(a, b)
		} else {
			r = c.Bin(OpAnd, a, b)
		}
	case token.OR:
		if w == 0 {
			r = c.Or(a, b)
		} else {
			r = c.Bin(OpOr, a, b)
		}
	case token.XOR:
		if w == 0 {
			r = c.Not(c.Eq(a, b))
		} else {
			r = c.Bin(OpXor, a, b)
		}
	case token.AND_NOT:
		r = c.Bin(OpAnd, a, c.BNot(b))
	case token.EQL:
		return normBool(c.Eq(a, b))
	case token.NEQ:
		return normBool(c.Not(c.Eq(a, b)))
	case token.LSS:
		if signed {
			return normBool(c.Cmp(OpSLt, a, b))
		}
		return normBool(c.Cmp(OpULt, a, b))
	case token.LEQ:
		if signed {
			return normBool(c.Cmp(OpSLe, a, b))
		}
		return normBool(c.Cmp(OpULe, a, b))
	case token.GTR:
		if signed {
			return normBool(c.Cmp(OpSLt, b, a))
		}
		return normBool(c.Cmp(OpULt, b, a))
	case token.GEQ:
		if signed {
			return normBool(c.Cmp(OpSLe, b, a))
		}
		return normBool(c.Cmp(OpULe, b, a))
	default:
		panic(fmt.Sprintf("symbolic binop: unsupported operator %s", op))
	}
	return norm(t, r)
}

func normBool(t *Term) value {
	if t.IsConst() {
		return t.Val != 0
	}
	return t
}

func (i *Interp) notV(v value) value {
	switch v := v.(type) {
	case bool:
		return !v
	case *Term:
		return normBool(i.ctx.Not(v))
	}
	panic("notV")
}

func (i *Interp) andV(a, b value) value {
	if x, ok := a.(bool); ok {
		if !x {
			return false
		}
		return b
	}
	if y, ok := b.(bool); ok {
		if !y {
			return false
		}
		return a
	}
	return normBool(i.ctx.And(a.(*Term), b.(*Term)))
}

func isView(v value) bool { _, ok := v.(viewPtr); return ok }

// equalsV is Go's == for values that may contain symbolic parts; the result is
// a bool or a Bool term.
func (i *Interp) equalsV(t types.Type, x, y value) value {
	switch xv := x.(type) {
	case *Term:
		return normBool(i.ctx.Eq(xv, i.toTerm(y)))
	case viewPtr:
		switch yv := y.(type) {
		case viewPtr:
			if xv.isNil() || yv.isNil() {
				return xv.isNil() && yv.isNil()
			}
			return &xv.mem[0] == &yv.mem[0]
		case *value:
			return xv.isNil() && yv == nil
		case unsafe.Pointer:
			return xv.isNil() && yv == nil
		}
		return false
	case nilChan:
		return true
	case *value:
		if yv, ok := y.(viewPtr); ok {
			return yv.isNil() && xv == nil
		}
	case structure:
		yv := y.(structure)
		st := t.Underlying().(*types.Struct)
		var r value = true
		for k := 0; k < st.NumFields(); k++ {
			if f := st.Field(k); f.Name() != "_" {
				r = i.andV(r, i.equalsV(f.Type(), xv[k], yv[k]))
			}
		}
		return r
	case array:
		yv := y.(array)
		et := t.Underlying().(*types.Array).Elem()
		var r value = true
		for k := range xv {
			r = i.andV(r, i.equalsV(et, xv[k], yv[k]))
		}
		return r
	case iface:
		yv := y.(iface)
		if !sameType(xv.t, yv.t) {
			return false
		}
		if xv.t == nil {
			return true
		}
		return i.equalsV(xv.t, xv.v, yv.v)
	}
	if yt, ok := y.(*Term); ok {
		return normBool(i.ctx.Eq(i.toTerm(x), yt))
	}
	return equals(t, x, y)
}

func (i *Interp) unop(instr *ssa.UnOp, x value) value {
	if instr.Op == token.MUL {
		return i.loadFrom(mustDeref(instr.X.Type()), x)
	}
	if xt, ok := x.(*Term); ok {
		t := instr.X.Type()
		switch instr.Op {
		case token.SUB:
			return norm(t, i.ctx.Neg(xt))
		case token.XOR:
			return norm(t, i.ctx.BNot(xt))
		case token.NOT:
			return normBool(i.ctx.Not(xt))
		}
		panic(fmt.Sprintf("symbolic unop %s", instr.Op))
	}
	return unop(instr, x)
}

func (i *Interp) conv(t_dst, t_src types.Type, x value) value {
	switch xv := x.(type) {
	case *Term:
		dw, _, dok := intInfo(t_dst)
		sw, ssigned, sok := intInfo(t_src)
		if dok && sok && dw > 0 && sw > 0 {
			c := i.ctx
			var r *Term
			switch {
			case dw == sw:
				r = xv
			case dw < sw:
				r = c.Extract(xv, dw-1, 0)
			case ssigned:
				r = c.SExt(xv, dw)
			default:
				r = c.ZExt(xv, dw)
			}
			return norm(t_dst, r)
		}
		if b, ok := t_dst.Underlying().(*types.Basic); ok && b.Info()&types.IsFloat != 0 && sok {
			// int -> float with a symbolic operand: fork over its values
			i.floatApx++
			u := i.concretize(xv, "int->float")
			return conv(t_dst, t_src, fromConst(t_src, u))
		}
		panic(fmt.Sprintf("symbolic conversion %v -> %v", t_src, t_dst))
	case viewPtr:
		return xv // pointer <-> unsafe.Pointer <-> pointer: keep the view
	case *value:
		if _, ok := t_dst.Underlying().(*types.Pointer); ok {
			return xv
		}
		if b, ok := t_dst.Underlying().(*types.Basic); ok && b.Kind() == types.UnsafePointer {
			return xv // keep the interpreter pointer (do not lose it in unsafe.Pointer)
		}
		if b, ok := t_dst.Underlying().(*types.Basic); ok && b.Kind() == types.Uintptr {
			return uintptr(unsafe.Pointer(xv))
		}
	case unsafe.Pointer:
		if _, ok := t_dst.Underlying().(*types.Pointer); ok && xv == nil {
			return zero(t_dst)
		}
	case []value:
		// []byte -> string with symbolic bytes is not supported: concretize
		if b, ok := t_dst.Underlying().(*types.Basic); ok && b.Kind() == types.String {
			out := make([]byte, len(xv))
			for k, e := range xv {
				switch e := e.(type) {
				case uint8:
					out[k] = e
				case *Term:
					out[k] = byte(i.concretize(e, "string byte"))
				default:
					return conv(t_dst, t_src, x)
				}
			}
			return string(out)
		}
	}
	return conv(t_dst, t_src, x)
}

// ---------------------------------------------------------------- memory

// flatten appends the bytes of v (all leaves must be bytes or integers).
func (i *Interp) flatten(out []value, v value) []value {
	switch v := v.(type) {
	case structure:
		for _, f := range v {
			out = i.flatten(out, f)
		}
	case array:
		for _, f := range v {
			out = i.flatten(out, f)
		}
	case uint8:
		out = append(out, v)
	case *Term:
		for k := 0; k < v.W; k += 8 {
			out = append(out, norm(types.Typ[types.Uint8], i.ctx.Extract(v, k+7, k)))
		}
	case uint16:
		out = append(out, uint8(v), uint8(v>>8))
	case uint32:
		out = append(out, uint8(v), uint8(v>>8), uint8(v>>16), uint8(v>>24))
	case uint64:
		for k := 0; k < 8; k++ {
			out = append(out, uint8(v>>(8*k)))
		}
	default:
		panic(fmt.Sprintf("flatten: unsupported %T", v))
	}
	return out
}

// materialize builds a value of type T from little-endian bytes.
func (i *Interp) materialize(T types.Type, mem []value) value {
	switch U := T.Underlying().(type) {
	case *types.Struct:
		n := U.NumFields()
		fields := make([]*types.Var, n)
		for k := 0; k < n; k++ {
			fields[k] = U.Field(k)
		}
		offs := stdSizes.Offsetsof(fields)
		s := make(structure, n)
		for k := 0; k < n; k++ {
			s[k] = i.materialize(fields[k].Type(), mem[offs[k]:])
		}
		return s
	case *types.Array:
		es := stdSizes.Sizeof(U.Elem())
		a := make(array, U.Len())
		for k := range a {
			a[k] = i.materialize(U.Elem(), mem[int64(k)*es:])
		}
		return a
	case *types.Basic:
		w, _, ok := intInfo(T)
		if !ok || w == 0 {
			panic(fmt.Sprintf("materialize: unsupported basic type %v", T))
		}
		if w == 8 {
			return mem[0]
		}
		var acc *Term
		for k := w/8 - 1; k >= 0; k-- {
			b := i.toTerm(mem[k])
			if acc == nil {
				acc = b
			} else {
				acc = i.ctx.Concat(acc, b)
			}
		}
		return norm(T, acc)
	}
	panic(fmt.Sprintf("materialize: unsupported type %v", T))
}

// storeView writes v of type T to mem.
func (i *Interp) storeView(T types.Type, mem []value, v value) {
	switch U := T.Underlying().(type) {
	case *types.Struct:
		n := U.NumFields()
		fields := make([]*types.Var, n)
		for k := 0; k < n; k++ {
			fields[k] = U.Field(k)
		}
		offs := stdSizes.Offsetsof(fields)
		s := v.(structure)
		for k := 0; k < n; k++ {
			i.storeView(fields[k].Type(), mem[offs[k]:], s[k])
		}
		return
	case *types.Array:
		es := stdSizes.Sizeof(U.Elem())
		a := v.(array)
		for k := range a {
			i.storeView(U.Elem(), mem[int64(k)*es:], a[k])
		}
		return
	case *types.Basic:
		bs := i.flatten(nil, v)
		copy(mem, bs)
		return
	}
	panic(fmt.Sprintf("storeView: unsupported type %v", T))
}

func (i *Interp) nilDeref() {
	i.rtPanic("invalid memory address or nil pointer dereference")
}

func shapeMatches(T types.Type, v value) bool {
	switch T.Underlying().(type) {
	case *types.Struct:
		_, ok := v.(structure)
		return ok
	case *types.Array:
		_, ok := v.(array)
		return ok
	}
	switch v.(type) {
	case structure, array:
		return false
	}
	return true
}

func (i *Interp) loadFrom(T types.Type, p value) value {
	switch p := p.(type) {
	case *value:
		if p == nil {
			i.nilDeref()
		}
		if !shapeMatches(T, *p) {
			return i.materialize(T, i.flatten(nil, *p))
		}
		return load(T, p)
	case viewPtr:
		if p.isNil() {
			i.nilDeref()
		}
		if int64(len(p.mem)) < stdSizes.Sizeof(T) {
			i.rtPanic("unsafe view read beyond the end of the buffer")
		}
		return i.materialize(T, p.mem)
	case unsafe.Pointer:
		i.nilDeref()
	}
	panic(fmt.Sprintf("load through %T", p))
}

func (i *Interp) storeTo(T types.Type, p value, v value) {
	switch p := p.(type) {
	case *value:
		if p == nil {
			i.nilDeref()
		}
		store(T, p, v)
		return
	case viewPtr:
		if p.isNil() {
			i.nilDeref()
		}
		if int64(len(p.mem)) < stdSizes.Sizeof(T) {
			i.rtPanic("unsafe view write beyond the end of the buffer")
		}
		i.storeView(T, p.mem, v)
		return
	}
	panic(fmt.Sprintf("store through %T", p))
}

func (i *Interp) fieldAddr(instr *ssa.FieldAddr, x value) value {
	switch x := x.(type) {
	case *value:
		if x == nil {
			i.nilDeref()
		}
		return &(*x).(structure)[instr.Field]
	case viewPtr:
		if x.isNil() {
			i.nilDeref()
		}
		st := mustDeref(instr.X.Type()).Underlying().(*types.Struct)
		n := st.NumFields()
		fields := make([]*types.Var, n)
		for k := 0; k < n; k++ {
			fields[k] = st.Field(k)
		}
		off := stdSizes.Offsetsof(fields)[instr.Field]
		if off > int64(len(x.mem)) {
			i.rtPanic("unsafe view field beyond the end of the buffer")
		}
		return viewPtr{mem: x.mem[off:]}
	}
	panic(fmt.Sprintf("fieldAddr on %T", x))
}

func (i *Interp) indexAddr(instr *ssa.IndexAddr, x, idx value) value {
	switch x := x.(type) {
	case []value:
		k := i.boundedIndex(idx, len(x), "index")
		return &x[k]
	case *value: // *array
		if x == nil {
			i.nilDeref()
		}
		a := (*x).(array)
		k := i.boundedIndex(idx, len(a), "index")
		return &a[k]
	case viewPtr:
		if x.isNil() {
			i.nilDeref()
		}
		at := mustDeref(instr.X.Type()).Underlying().(*types.Array)
		k := i.boundedIndex(idx, int(at.Len()), "index")
		es := stdSizes.Sizeof(at.Elem())
		if es == 1 {
			return &x.mem[k]
		}
		return viewPtr{mem: x.mem[int64(k)*es:]}
	}
	panic(fmt.Sprintf("unexpected x type in IndexAddr: %T", x))
}

// slice implements x[lo:hi:max].
func (i *Interp) slice(instr *ssa.Slice, x, lo, hi, max value) value {
	var Len, Cap int
	var base []value
	var str string
	isStr := false
	switch x := x.(type) {
	case string:
		Len, Cap = len(x), len(x)
		str, isStr = x, true
	case []value:
		Len, Cap = len(x), cap(x)
		base = x
	case *value: // *array
		if x == nil {
			i.nilDeref()
		}
		a := (*x).(array)
		Len, Cap = len(a), len(a)
		base = []value(a)
	case viewPtr:
		if x.isNil() {
			i.nilDeref()
		}
		at := mustDeref(instr.X.Type()).Underlying().(*types.Array)
		if stdSizes.Sizeof(at.Elem()) != 1 {
			panic("slice of a view of non-byte array")
		}
		Len, Cap = int(at.Len()), int(at.Len())
		base = x.mem[:Len:Len]
	default:
		panic(fmt.Sprintf("slice: unexpected X type: %T", x))
	}
	get := func(v value, def int, what string) int {
		if v == nil {
			return def
		}
		if t, ok := v.(*Term); ok {
			in := i.ctx.Cmp(OpULe, t, i.ctx.BV(t.W, uint64(Cap)))
			if !i.branch(in) {
				i.rtPanic("slice bounds out of range [symbolic]")
			}
			return int(i.concretize(t, what))
		}
		return int(asInt64(v))
	}
	l := get(lo, 0, "slice lo")
	h := get(hi, Len, "slice hi")
	m := get(max, Cap, "slice max")
	if l < 0 || h < l || m < h || m > Cap {
		i.rtPanic(fmt.Sprintf("slice bounds out of range [%d:%d:%d] with capacity %d", l, h, m, Cap))
	}
	if isStr {
		return str[l:h]
	}
	if base == nil {
		return []value(nil)
	}
	return base[l:h:m]
}

func (i *Interp) lookup(instr *ssa.Lookup, x, idx value) value {
	switch x := x.(type) {
	case *omap:
		v, ok := x.lookup(i, idx)
		if !ok {
			v = zero(instr.X.Type().Underlying().(*types.Map).Elem())
		}
		if instr.CommaOk {
			return tuple{v, ok}
		}
		return v
	case string:
		k := i.boundedIndex(idx, len(x), "string index")
		return x[k]
	}
	panic(fmt.Sprintf("unexpected x type in Lookup: %T", x))
}
