package sym

// Path exploration by re-execution along decision vectors.

import (
	"fmt"
	"go/token"
	"go/types"
	"os"
	"sort"
	"strings"
	"sync"
	"time"

	"golang.org/x/tools/go/ssa"
)

type Config struct {
	NoRaces      bool  // disable happens-before race detection in schedule harnesses
	AllRaces     bool  // happens-before race detection from the start of every path (also sequential harnesses with background goroutines)
	MaxSteps     int64 // per path
	MaxDecisions int   // per path
	MaxPaths     int   // per harness
	MaxViol      int   // stop after that many violations
	Workers      int
	SolverPath   string
	TimeoutMs    int
	Trace        bool
	Verbose      bool
	InitPkgs     map[string]bool // packages whose init() is executed
	Known        map[string]bool // ids of known findings that harnesses may tag
	Replay       map[string]uint64
	Params       map[string]int64
	FallbackMs   int // one-shot solver budget for queries the incremental solver cannot decide
	Deadline     time.Time
}

type Decision struct {
	Kind   byte   // 'b' branch, 'c' concretize, 's' schedule/choose
	Val    uint64 // concretize: candidate value; choose: chosen index
	Taken  bool   // branch: cond true; concretize: term == Val
	Forced bool   // the other side was infeasible
}

func (d Decision) String() string {
	switch d.Kind {
	case 'b':
		if d.Taken {
			return "T"
		}
		return "F"
	case 'c':
		if d.Taken {
			return fmt.Sprintf("=%d", d.Val)
		}
		return fmt.Sprintf("!%d", d.Val)
	}
	return fmt.Sprintf("%c%d", d.Kind, d.Val)
}

type Violation struct {
	Harness string            `json:"harness"`
	Kind    string            `json:"kind"` // assert | panic | deadlock
	Msg     string            `json:"msg"`
	Where   string            `json:"where"`
	Known   string            `json:"known,omitempty"`
	Model   map[string]uint64 `json:"model"`
	Path    string            `json:"path"`
	Log     []string          `json:"log,omitempty"`
}

type Result struct {
	Harness     string
	Paths       int
	Completed   int // reached verifReach("end") / returned normally
	Cut         int // ended by an unsatisfiable assumption
	Violations  []Violation
	Incomplete  []string // reasons the run is inconclusive (step limit, unknown, engine error ...)
	Queries     [3]int
	SolverErrs  int
	SolverNs    int64
	Steps       int64
	Decisions   int
	Asserts     int // assertion obligations discharged (unsat)
	Reached     map[string]int
	Funcs       map[string]int64 // executed SSA functions -> instructions
	Samples     []map[string]uint64
	MaxTerms    int
	WallS       float64
	UnknownFeas int
	Fallbacks   int // queries decided by the one-shot fallback solvers
	FloatApprox int
}

type workItem struct {
	prefix []Decision
}

type explorer struct {
	prog    *ssa.Program
	entry   *ssa.Function
	cfg     *Config
	mu      sync.Mutex
	cond    *sync.Cond
	stack   []workItem
	active  int
	res     *Result
	stop    bool
	started int
}

// Explore runs harness entry over all feasible paths.
func Explore(prog *ssa.Program, entry *ssa.Function, cfg *Config) *Result {
	t0 := time.Now()
	ex := &explorer{prog: prog, entry: entry, cfg: cfg}
	ex.cond = sync.NewCond(&ex.mu)
	ex.res = &Result{Harness: entry.Name(), Reached: map[string]int{}, Funcs: map[string]int64{}}
	ex.stack = []workItem{{}}
	n := cfg.Workers
	if n <= 0 {
		n = 1
	}
	var wg sync.WaitGroup
	for w := 0; w < n; w++ {
		wg.Add(1)
		go func() {
			defer wg.Done()
			solver, err := NewSolver(cfg.SolverPath, cfg.TimeoutMs)
			if err != nil {
				ex.mu.Lock()
				ex.res.Incomplete = append(ex.res.Incomplete, "cannot start solver: "+err.Error())
				ex.stop = true
				ex.cond.Broadcast()
				ex.mu.Unlock()
				return
			}
			defer solver.Close()
			solver.FallbackMs = cfg.FallbackMs
			if d := os.Getenv("GOSYM_DUMP"); d != "" {
				if df, err := os.Create(fmt.Sprintf("%s.%d.smt2", d, time.Now().UnixNano())); err == nil {
					solver.Dump = df
					defer df.Close()
				}
			}
			for {
				item, ok := ex.next()
				if !ok {
					break
				}
				ex.runOne(solver, item)
				ex.mu.Lock()
				ex.active--
				ex.cond.Broadcast()
				ex.mu.Unlock()
			}
			ex.mu.Lock()
			for k := 0; k < 3; k++ {
				ex.res.Queries[k] += solver.Queries[k]
			}
			ex.res.SolverErrs += solver.Errors
			if solver.Errors > 0 {
				ex.res.Incomplete = append(ex.res.Incomplete, "solver error: "+solver.LastErr)
			}
			ex.res.SolverNs += solver.WallNs
			ex.res.Fallbacks += solver.Fallbacks
			ex.mu.Unlock()
		}()
	}
	wg.Wait()
	ex.res.WallS = time.Since(t0).Seconds()
	ex.res.Incomplete = dedup(ex.res.Incomplete)
	return ex.res
}

func dedup(s []string) []string {
	sort.Strings(s)
	var out []string
	for i, x := range s {
		if i == 0 || x != s[i-1] {
			out = append(out, x)
		}
	}
	return out
}

func (ex *explorer) next() (workItem, bool) {
	ex.mu.Lock()
	defer ex.mu.Unlock()
	for {
		if ex.stop {
			return workItem{}, false
		}
		if len(ex.stack) > 0 {
			if ex.started >= ex.cfg.MaxPaths {
				ex.res.Incomplete = append(ex.res.Incomplete, fmt.Sprintf("path budget (%d) exhausted", ex.cfg.MaxPaths))
				ex.stop = true
				ex.cond.Broadcast()
				return workItem{}, false
			}
			if !ex.cfg.Deadline.IsZero() && time.Now().After(ex.cfg.Deadline) {
				ex.res.Incomplete = append(ex.res.Incomplete, "time budget exhausted")
				ex.stop = true
				ex.cond.Broadcast()
				return workItem{}, false
			}
			it := ex.stack[len(ex.stack)-1]
			ex.stack = ex.stack[:len(ex.stack)-1]
			ex.active++
			ex.started++
			return it, true
		}
		if ex.active == 0 {
			return workItem{}, false
		}
		ex.cond.Wait()
	}
}

func (ex *explorer) push(prefix []Decision) {
	ex.mu.Lock()
	ex.stack = append(ex.stack, workItem{prefix: prefix})
	ex.cond.Signal()
	ex.mu.Unlock()
}

// Interp is the state of one path execution.
type Interp struct {
	prog               *ssa.Program
	cfg                *Config
	ex                 *explorer
	globals            map[*ssa.Global]*value
	runtimeErrorString types.Type
	ctx                *Ctx
	solver             *Solver

	prefix []Decision
	pos    int
	trace  []Decision

	threads  []*thread
	cur      *thread
	aborting bool
	abortWhy string
	schedOn  bool
	preempts int

	steps    int64
	curInstr ssa.Instruction

	nondet   map[string]int
	known    string
	reached  map[string]int
	funcs    map[*ssa.Function]int64
	asserts  int
	viol     *Violation
	incompl  []string
	log      []string
	unkFeas  int
	floatApx int

	mutexes map[*value]*mutexState
	conds   map[*value]*condState
	wgs     map[*value]*wgState
	pools   map[*value][]value
	disk    interface{}
	extra   map[string]interface{}
	race    *raceState
}

func (i *Interp) global(g *ssa.Global) *value {
	if r, ok := i.globals[g]; ok {
		return r
	}
	cell := zero(mustDeref(g.Type()))
	r := &cell
	i.globals[g] = r
	return r
}

func (i *Interp) noteFunc(fn *ssa.Function) {
	i.funcs[fn]++
}

// abort ends the current path.
func (i *Interp) abort(why string) {
	if !i.aborting {
		i.aborting = true
		i.abortWhy = why
	}
	panic(abortPath{why})
}

func (i *Interp) pathString() string {
	var sb strings.Builder
	for _, d := range i.trace {
		sb.WriteString(d.String())
		sb.WriteByte(' ')
	}
	return sb.String()
}

func (i *Interp) where() string {
	if i.curInstr != nil {
		p := i.prog.Fset.Position(i.curInstr.Pos())
		fn := ""
		if par := i.curInstr.Parent(); par != nil {
			fn = par.String()
		}
		return fmt.Sprintf("%s %s:%d", fn, shortFile(p.Filename), p.Line)
	}
	return ""
}

func shortFile(f string) string {
	if k := strings.LastIndex(f, "/"); k >= 0 {
		return f[k+1:]
	}
	return f
}

// ---------------------------------------------------------------- decisions

func (i *Interp) record(d Decision) {
	i.trace = append(i.trace, d)
	if len(i.trace) > i.cfg.MaxDecisions {
		i.incompl = append(i.incompl, fmt.Sprintf("decision limit (%d) reached at %s", i.cfg.MaxDecisions, i.where()))
		i.abort("decision-limit")
	}
}

func (i *Interp) alt(d Decision) {
	p := make([]Decision, len(i.trace)+1)
	copy(p, i.trace)
	p[len(i.trace)] = d
	i.ex.push(p)
}

func (i *Interp) assertPC(t *Term) {
	i.solver.Assert(t)
}

func (i *Interp) feasible(t *Term) SatResult {
	r := i.solver.Check(t)
	if r == Unknown {
		i.unkFeas++
	}
	return r
}

// branch decides a symbolic condition.
func (i *Interp) branch(cond *Term) bool {
	if cond.IsConst() {
		return cond.Val != 0
	}
	if i.pos < len(i.prefix) {
		d := i.prefix[i.pos]
		i.pos++
		if d.Kind != 'b' {
			panic(engineError{err: fmt.Sprintf("replay divergence: expected branch, prefix has %v at %d", d, i.pos-1), where: i.where()})
		}
		i.trace = append(i.trace, d)
		if d.Taken {
			i.assertPC(cond)
		} else {
			i.assertPC(i.ctx.Not(cond))
		}
		return d.Taken
	}
	rt := i.feasible(cond)
	if rt == Unsat {
		i.record(Decision{Kind: 'b', Taken: false, Forced: true})
		i.assertPC(i.ctx.Not(cond))
		return false
	}
	rf := i.feasible(i.ctx.Not(cond))
	if rf == Unsat {
		i.record(Decision{Kind: 'b', Taken: true, Forced: true})
		i.assertPC(cond)
		return true
	}
	i.alt(Decision{Kind: 'b', Taken: false})
	i.record(Decision{Kind: 'b', Taken: true})
	i.assertPC(cond)
	return true
}

// truth converts a Go bool value (possibly symbolic) into a decision.
func (i *Interp) truth(v value, at ssa.Instruction) bool {
	switch v := v.(type) {
	case bool:
		return v
	case *Term:
		return i.branch(v)
	}
	panic(fmt.Sprintf("truth: unexpected %T", v))
}

// concretize returns a concrete value for t, forking over all feasible values.
func (i *Interp) concretize(t *Term, what string) uint64 {
	for {
		if t.IsConst() {
			return t.Val
		}
		if i.pos < len(i.prefix) {
			d := i.prefix[i.pos]
			i.pos++
			if d.Kind != 'c' {
				panic(engineError{err: fmt.Sprintf("replay divergence: expected concretize(%s), prefix has %v at %d", what, d, i.pos-1), where: i.where()})
			}
			i.trace = append(i.trace, d)
			eq := i.ctx.Eq(t, i.ctx.BV(t.W, d.Val))
			if d.Taken {
				i.assertPC(eq)
				return d.Val
			}
			i.assertPC(i.ctx.Not(eq))
			continue
		}
		r, vals := i.solver.CheckModel(nil, []*Term{t})
		if r != Sat || len(vals) != 1 {
			i.incompl = append(i.incompl, "concretize("+what+"): solver said "+r.String()+" at "+i.where())
			i.abort("concretize-unknown")
		}
		v := vals[0]
		eq := i.ctx.Eq(t, i.ctx.BV(t.W, v))
		ra := i.feasible(i.ctx.Not(eq))
		if ra != Unsat {
			i.alt(Decision{Kind: 'c', Val: v, Taken: false})
			i.record(Decision{Kind: 'c', Val: v, Taken: true})
		} else {
			i.record(Decision{Kind: 'c', Val: v, Taken: true, Forced: true})
		}
		i.assertPC(eq)
		return v
	}
}

// choose forks over n alternatives (n small); used for scheduling and verifChoose.
func (i *Interp) choose(n int, kind byte) int {
	if n <= 1 {
		return 0
	}
	if i.pos < len(i.prefix) {
		d := i.prefix[i.pos]
		i.pos++
		if d.Kind != kind {
			panic(engineError{err: fmt.Sprintf("replay divergence: expected choose, prefix has %v at %d", d, i.pos-1), where: i.where()})
		}
		i.trace = append(i.trace, d)
		return int(d.Val)
	}
	for k := n - 1; k >= 1; k-- {
		i.alt(Decision{Kind: kind, Val: uint64(k)})
	}
	i.record(Decision{Kind: kind, Val: 0})
	return 0
}

// concreteInt forces an integer value to be concrete.
func (i *Interp) concreteInt(v value, what string) int64 {
	if t, ok := v.(*Term); ok {
		u := i.concretize(t, what)
		return sext64(u, t.W)
	}
	return asInt64(v)
}

// boundedIndex checks 0 <= idx < n (panic path otherwise) and concretizes idx.
func (i *Interp) boundedIndex(idx value, n int, what string) int {
	if t, ok := idx.(*Term); ok {
		in := i.ctx.Cmp(OpULt, t, i.ctx.BV(t.W, uint64(n)))
		if !i.branch(in) {
			i.rtPanic(fmt.Sprintf("index out of range [symbolic] with length %d", n))
		}
		return int(i.concretize(t, what))
	}
	k := asInt64(idx)
	if k < 0 || k >= int64(n) {
		i.rtPanic(fmt.Sprintf("index out of range [%d] with length %d", k, n))
	}
	return int(k)
}

// ---------------------------------------------------------------- one path

func (ex *explorer) runOne(solver *Solver, item workItem) {
	solver.Reset()
	i := &Interp{
		prog:    ex.prog,
		cfg:     ex.cfg,
		ex:      ex,
		globals: map[*ssa.Global]*value{},
		ctx:     NewCtx(),
		solver:  solver,
		prefix:  item.prefix,
		nondet:  map[string]int{},
		reached: map[string]int{},
		funcs:   map[*ssa.Function]int64{},
		mutexes: map[*value]*mutexState{},
		conds:   map[*value]*condState{},
		wgs:     map[*value]*wgState{},
		pools:   map[*value][]value{},
		extra:   map[string]interface{}{},
	}
	if rt := ex.prog.ImportedPackage("runtime"); rt != nil {
		i.runtimeErrorString = rt.Type("errorString").Object().Type()
	} else {
		i.runtimeErrorString = types.Typ[types.String]
	}
	main := &thread{id: 0, wake: make(chan struct{}, 1), i: i, name: "main"}
	i.threads = []*thread{main}
	i.cur = main
	if ex.cfg.AllRaces && !ex.cfg.NoRaces {
		i.raceInit()
	}

	status := "ok"
	func() {
		defer func() {
			r := recover()
			if r == nil {
				return
			}
			switch r := r.(type) {
			case abortPath:
				status = r.why
				if i.abortWhy != "" {
					status = i.abortWhy
				}
			case engineError:
				status = "engine-error"
				msg := fmt.Sprintf("engine error: %v at %s", r.err, r.where)
				i.incompl = append(i.incompl, msg)
				if ex.cfg.Verbose {
					fmt.Fprintln(os.Stderr, msg+"\n"+r.stack)
				}
			case targetPanic:
				status = "panic"
				i.violation("panic", "unrecovered panic: "+panicString(r.v))
			default:
				status = "engine-error"
				i.incompl = append(i.incompl, fmt.Sprintf("engine error: %v at %s", r, i.where()))
			}
		}()
		i.runInits()
		call(i, nil, token.NoPos, ex.entry, nil)
	}()
	i.killAll()

	ex.mu.Lock()
	defer ex.mu.Unlock()
	res := ex.res
	res.Paths++
	res.Steps += i.steps
	res.Decisions += len(i.trace)
	res.Asserts += i.asserts
	res.UnknownFeas += i.unkFeas
	res.FloatApprox += i.floatApx
	if i.ctx.NumTerms() > res.MaxTerms {
		res.MaxTerms = i.ctx.NumTerms()
	}
	for k, v := range i.reached {
		res.Reached[k] += v
	}
	for f, n := range i.funcs {
		res.Funcs[f.String()] += n
	}
	res.Incomplete = append(res.Incomplete, i.incompl...)
	switch status {
	case "ok":
		res.Completed++
		if len(res.Samples) < 4 {
			if m := i.sampleModel(); m != nil {
				res.Samples = append(res.Samples, m)
			}
		}
	case "assume":
		res.Cut++
	case "step-limit":
		res.Incomplete = append(res.Incomplete, fmt.Sprintf("step limit (%d) reached (unwinding failure) at %s", ex.cfg.MaxSteps, i.where()))
	case "violation", "panic", "deadlock", "race", "decision-limit", "engine-error", "concretize-unknown":
	default:
		res.Incomplete = append(res.Incomplete, "path ended: "+status)
	}
	if i.viol != nil {
		res.Violations = append(res.Violations, *i.viol)
		nUnknown := 0
		for _, v := range res.Violations {
			if v.Known == "" {
				nUnknown++
			}
		}
		if ex.cfg.MaxViol > 0 && nUnknown >= ex.cfg.MaxViol {
			ex.stop = true
			ex.cond.Broadcast()
		}
	}
	if ex.cfg.Verbose {
		fmt.Fprintf(os.Stderr, "path %d: %s steps=%d dec=%d [%s]\n", res.Paths, status, i.steps, len(i.trace), i.pathString())
	}
}

func panicString(v value) string {
	if it, ok := v.(iface); ok {
		if s, ok := it.v.(string); ok {
			return s
		}
		return fmt.Sprintf("(%v) %s", it.t, toString(it.v))
	}
	return toString(v)
}

// sampleModel returns one satisfying assignment for the finished path.
func (i *Interp) sampleModel() map[string]uint64 {
	if len(i.ctx.Vars) == 0 {
		return map[string]uint64{}
	}
	r, vals := i.solver.CheckModel(nil, i.ctx.Vars)
	if r != Sat {
		return nil
	}
	m := map[string]uint64{}
	for k, v := range i.ctx.Vars {
		if k < len(vals) {
			m[v.Name] = vals[k]
		}
	}
	return m
}

// violation records a property violation on the current path (with a model).
func (i *Interp) violation(kind, msg string) {
	if i.viol != nil {
		return
	}
	v := &Violation{Harness: i.ex.entry.Name(), Kind: kind, Msg: msg, Where: i.where(), Known: i.known, Path: i.pathString()}
	v.Model = i.sampleModel()
	if v.Model == nil {
		i.incompl = append(i.incompl, "no model for violation: "+msg)
		v.Model = map[string]uint64{}
	}
	v.Log = append(v.Log, i.log...)
	i.viol = v
}

func (i *Interp) runInits() {
	for _, pkg := range i.prog.AllPackages() {
		if i.cfg.InitPkgs[pkg.Pkg.Path()] {
			if fn := pkg.Func("init"); fn != nil {
				call(i, nil, token.NoPos, fn, nil)
			}
		}
	}
}
