package sym

// Ordered association-list maps.  Iteration order is insertion order (so that
// re-execution is deterministic); keys may be symbolic, in which case lookups
// fork on key equality when the solver cannot decide it.

import "go/types"

type omapEntry struct {
	key, val value
	dead     bool
}

type omap struct {
	keyType types.Type
	ents    []*omapEntry
	n       int
}

func newOmap(kt types.Type) *omap { return &omap{keyType: kt} }

func (m *omap) len() int {
	if m == nil {
		return 0
	}
	return m.n
}

func isSymbolic(v value) bool {
	switch v := v.(type) {
	case *Term:
		return true
	case structure:
		for _, x := range v {
			if isSymbolic(x) {
				return true
			}
		}
	case array:
		for _, x := range v {
			if isSymbolic(x) {
				return true
			}
		}
	case iface:
		return isSymbolic(v.v)
	}
	return false
}

// find returns the entry whose key equals k on this path (deciding symbolic
// equalities through the interpreter), or nil.
func (m *omap) find(i *Interp, k value) *omapEntry {
	if m == nil {
		return nil
	}
	for _, e := range m.ents {
		if e.dead {
			continue
		}
		eq := i.equalsV(m.keyType, e.key, k)
		switch eq := eq.(type) {
		case bool:
			if eq {
				return e
			}
		case *Term:
			if i.branch(eq) {
				return e
			}
		}
	}
	return nil
}

func (m *omap) lookup(i *Interp, k value) (value, bool) {
	if e := m.find(i, k); e != nil {
		return e.val, true
	}
	return nil, false
}

func (m *omap) insert(i *Interp, k, v value) {
	if e := m.find(i, k); e != nil {
		e.val = v
		return
	}
	m.ents = append(m.ents, &omapEntry{key: k, val: v})
	m.n++
}

func (m *omap) delete(i *Interp, k value) {
	if e := m.find(i, k); e != nil {
		e.dead = true
		m.n--
	}
}

type omapIter struct {
	m   *omap
	pos int
}

func (it *omapIter) next() tuple {
	if it.m != nil {
		for it.pos < len(it.m.ents) {
			e := it.m.ents[it.pos]
			it.pos++
			if !e.dead {
				return tuple{true, e.key, e.val}
			}
		}
	}
	return tuple{false, nil, nil}
}
