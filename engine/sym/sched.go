package sym

// Cooperative threads (one Go goroutine per interpreted goroutine, exactly one
// running at any time) and the engine's model of package sync.

import (
	"fmt"
	"go/token"
	"go/types"
	"os"

	"golang.org/x/tools/go/ssa"
)

type thread struct {
	id     int
	name   string
	wake   chan struct{}
	exited chan struct{}
	done   bool
	canRun func() bool // nil: runnable
	i      *Interp
	what   string // what it is blocked on (diagnostics)
	vc     vclock // happens-before vector clock (race detection)
}

type mutexState struct {
	locked bool
	owner  int
}
type condState struct {
	waiters []*condWaiter
}
type condWaiter struct {
	thr      *thread
	signaled bool
}
type wgState struct {
	n int64
}

func (i *Interp) runnable() []*thread {
	var out []*thread
	for _, t := range i.threads {
		if t.done {
			continue
		}
		if t.canRun == nil || t.canRun() {
			out = append(out, t)
		}
	}
	return out
}

// spawn starts a new interpreted goroutine (it does not run until scheduled).
func (i *Interp) spawn(fn value, args []value, pos token.Pos) {
	t := &thread{id: len(i.threads), wake: make(chan struct{}, 1), exited: make(chan struct{}), i: i}
	t.name = fmt.Sprintf("go#%d", t.id)
	i.threads = append(i.threads, t)
	i.raceSpawn(i.cur, t)
	go func() {
		defer close(t.exited)
		<-t.wake
		if i.aborting {
			t.done = true
			return
		}
		defer func() {
			t.done = true
			r := recover()
			if r != nil {
				switch r := r.(type) {
				case abortPath:
				case engineError:
					if !i.aborting {
						i.aborting = true
						i.abortWhy = "engine-error"
					}
					i.incompl = append(i.incompl, fmt.Sprintf("engine error (thread %s): %v at %s", t.name, r.err, r.where))
					if i.cfg.Verbose {
						fmt.Fprintln(os.Stderr, r.stack)
					}
				case targetPanic:
					if !i.aborting {
						i.violation("panic", "unrecovered panic in goroutine: "+panicString(r.v))
						i.aborting = true
						i.abortWhy = "panic"
					}
				default:
					if !i.aborting {
						i.aborting = true
						i.abortWhy = "engine-error"
					}
					i.incompl = append(i.incompl, fmt.Sprintf("engine error (thread %s): %v", t.name, r))
				}
			}
			if i.aborting {
				// give control back to the main thread so that it unwinds
				if i.cur == t {
					m := i.threads[0]
					i.cur = m
					m.wake <- struct{}{}
				}
				return
			}
			// normal exit: hand over
			i.handOver(t)
		}()
		call(i, nil, pos, fn, args)
	}()
	i.schedPoint("go")
}

// handOver is called by a thread that has finished.
func (i *Interp) handOver(t *thread) {
	cands := i.runnable()
	if len(cands) == 0 {
		// everything else is blocked: deadlock unless main is done
		if !i.threads[0].done {
			i.deadlock()
			i.aborting = true
			if i.abortWhy == "" {
				i.abortWhy = "deadlock"
			}
			m := i.threads[0]
			i.cur = m
			m.wake <- struct{}{}
		}
		return
	}
	next := i.pickAmong(cands, nil)
	i.cur = next
	next.wake <- struct{}{}
}

func (i *Interp) deadlock() {
	msg := "deadlock: all goroutines are blocked:"
	for _, t := range i.threads {
		if !t.done {
			msg += fmt.Sprintf(" [%s on %s]", t.name, t.what)
		}
	}
	i.violation("deadlock", msg)
}

// pickAmong chooses the next thread to run.
func (i *Interp) pickAmong(cands []*thread, cur *thread) *thread {
	if len(cands) == 1 {
		return cands[0]
	}
	curOK := false
	for _, c := range cands {
		if c == cur {
			curOK = true
		}
	}
	if i.schedOn && (i.preempts > 0 || !curOK) {
		k := i.choose(len(cands), 's')
		if curOK && cands[k] != cur {
			i.preempts--
		}
		return cands[k]
	}
	if curOK {
		return cur
	}
	return cands[0]
}

// block suspends the current thread until pred() holds (pred == nil: plain yield).
func (i *Interp) block(pred func() bool, what string) {
	cur := i.cur
	cur.canRun = pred
	cur.what = what
	cands := i.runnable()
	if len(cands) == 0 {
		i.deadlock()
		i.abort("deadlock")
	}
	next := i.pickAmong(cands, cur)
	if next != cur {
		i.cur = next
		next.wake <- struct{}{}
		<-cur.wake
		if i.aborting {
			panic(abortPath{i.abortWhy})
		}
	}
	cur.canRun = nil
	cur.what = ""
}

// yield hands the processor to another runnable thread if there is one (not
// counted as a preemption); which one is a scheduler decision.
func (i *Interp) yield() {
	cur := i.cur
	if i.schedOn {
		var others []*thread
		for _, t := range i.runnable() {
			if t != cur {
				others = append(others, t)
			}
		}
		if len(others) == 0 {
			return
		}
		next := others[0]
		if len(others) > 1 {
			next = others[i.choose(len(others), 's')]
		}
		i.switchTo(cur, next)
		return
	}
	// sequential mode: every other runnable thread gets a turn (in id order)
	for _, t := range i.threads {
		if t == cur || t.done {
			continue
		}
		if t.canRun == nil || t.canRun() {
			i.switchTo(cur, t)
		}
	}
}

func (i *Interp) switchTo(cur, next *thread) {
	cur.what = "yield"
	i.cur = next
	next.wake <- struct{}{}
	<-cur.wake
	if i.aborting {
		panic(abortPath{i.abortWhy})
	}
	cur.what = ""
}

// schedPoint is a possible context switch (only in schedule mode).
func (i *Interp) schedPoint(what string) {
	if !i.schedOn || i.preempts <= 0 {
		return
	}
	i.block(nil, what)
}

// killAll terminates every thread still alive at the end of a path.
func (i *Interp) killAll() {
	i.aborting = true
	if i.abortWhy == "" {
		i.abortWhy = "end"
	}
	for _, t := range i.threads[1:] {
		select {
		case <-t.exited:
			continue
		default:
		}
		t.wake <- struct{}{}
		<-t.exited
	}
}

// ---------------------------------------------------------------- sync model

func fieldIndex(t types.Type, name string) int {
	st := t.Underlying().(*types.Struct)
	for k := 0; k < st.NumFields(); k++ {
		if st.Field(k).Name() == name {
			return k
		}
	}
	panic("no field " + name + " in " + t.String())
}

// The lock bit of a sync.Mutex is kept in the interpreted struct itself (field
// "state"), so that copying or zeroing the struct behaves as in Go.
func (i *Interp) mutexCell(p *value) *value {
	if p == nil {
		i.rtPanic("invalid memory address or nil pointer dereference (nil *sync.Mutex)")
	}
	return &(*p).(structure)[0]
}

func mutexLocked(c *value) bool {
	switch v := (*c).(type) {
	case int32:
		return v != 0
	}
	return false
}

func (i *Interp) mutexLock(p *value) {
	c := i.mutexCell(p)
	i.schedPoint("Mutex.Lock")
	if mutexLocked(c) {
		i.block(func() bool { return !mutexLocked(c) }, "Mutex.Lock")
	}
	*c = int32(1)
	i.raceAcquire(c)
	i.noteSync("lock", p)
}

func (i *Interp) mutexUnlock(p *value) {
	c := i.mutexCell(p)
	if !mutexLocked(c) {
		panic(targetPanic{iface{t: i.runtimeErrorString, v: "fatal error: sync: unlock of unlocked mutex"}})
	}
	i.raceRelease(c)
	*c = int32(0)
	i.noteSync("unlock", p)
	i.schedPoint("Mutex.Unlock")
}

func (i *Interp) noteSync(op string, p *value) {
	if tr, ok := i.extra["synctrace"].(*[]string); ok {
		*tr = append(*tr, fmt.Sprintf("%s:%s:%p", i.cur.name, op, p))
	}
}

func init() {
	for k, v := range map[string]externalFn{
		"(*sync.Mutex).Lock": func(fr *frame, args []value) value {
			fr.i.mutexLock(args[0].(*value))
			return nil
		},
		"(*sync.Mutex).Unlock": func(fr *frame, args []value) value {
			fr.i.mutexUnlock(args[0].(*value))
			return nil
		},
		"(*sync.Mutex).TryLock": func(fr *frame, args []value) value {
			c := fr.i.mutexCell(args[0].(*value))
			if mutexLocked(c) {
				return false
			}
			*c = int32(1)
			fr.i.raceAcquire(c)
			return true
		},
		"sync.NewCond": func(fr *frame, args []value) value {
			fn := fr.fn
			t := mustDeref(fn.Signature.Results().At(0).Type())
			st := zero(t).(structure)
			st[fieldIndex(t, "L")] = args[0]
			v := value(st)
			return &v
		},
		"(*sync.Cond).Wait": func(fr *frame, args []value) value {
			i := fr.i
			p := args[0].(*value)
			cs := i.conds[p]
			if cs == nil {
				cs = &condState{}
				i.conds[p] = cs
			}
			t := mustDeref(fr.fn.Signature.Recv().Type())
			L := (*p).(structure)[fieldIndex(t, "L")].(iface)
			w := &condWaiter{thr: i.cur}
			cs.waiters = append(cs.waiters, w)
			i.callMethod(fr, L, "Unlock")
			i.block(func() bool { return w.signaled }, "Cond.Wait")
			i.raceAcquire(p)
			i.callMethod(fr, L, "Lock")
			return nil
		},
		"(*sync.Cond).Signal": func(fr *frame, args []value) value {
			i := fr.i
			i.raceRelease(args[0].(*value))
			cs := i.conds[args[0].(*value)]
			if cs != nil && len(cs.waiters) > 0 {
				k := 0
				if i.schedOn && len(cs.waiters) > 1 {
					k = i.choose(len(cs.waiters), 's')
				}
				cs.waiters[k].signaled = true
				cs.waiters = append(cs.waiters[:k:k], cs.waiters[k+1:]...)
			}
			i.schedPoint("Cond.Signal")
			return nil
		},
		"(*sync.Cond).Broadcast": func(fr *frame, args []value) value {
			i := fr.i
			i.raceRelease(args[0].(*value))
			cs := i.conds[args[0].(*value)]
			if cs != nil {
				for _, w := range cs.waiters {
					w.signaled = true
				}
				cs.waiters = nil
			}
			i.schedPoint("Cond.Broadcast")
			return nil
		},
		"(*sync.WaitGroup).Add": func(fr *frame, args []value) value {
			i := fr.i
			p := args[0].(*value)
			w := i.wgs[p]
			if w == nil {
				w = &wgState{}
				i.wgs[p] = w
			}
			w.n += i.concreteInt(args[1], "WaitGroup.Add")
			if w.n < 0 {
				panic(targetPanic{iface{t: i.runtimeErrorString, v: "sync: negative WaitGroup counter"}})
			}
			i.schedPoint("WaitGroup.Add")
			return nil
		},
		"(*sync.WaitGroup).Done": func(fr *frame, args []value) value {
			i := fr.i
			p := args[0].(*value)
			w := i.wgs[p]
			if w == nil {
				w = &wgState{}
				i.wgs[p] = w
			}
			i.raceRelease(p)
			w.n--
			if w.n < 0 {
				panic(targetPanic{iface{t: i.runtimeErrorString, v: "sync: negative WaitGroup counter"}})
			}
			i.schedPoint("WaitGroup.Done")
			return nil
		},
		"(*sync.WaitGroup).Wait": func(fr *frame, args []value) value {
			i := fr.i
			p := args[0].(*value)
			w := i.wgs[p]
			if w == nil {
				w = &wgState{}
				i.wgs[p] = w
			}
			i.schedPoint("WaitGroup.Wait")
			if w.n > 0 {
				i.block(func() bool { return w.n == 0 }, "WaitGroup.Wait")
			}
			i.raceAcquire(p)
			return nil
		},
		"(*sync.Pool).Get": func(fr *frame, args []value) value {
			i := fr.i
			p := args[0].(*value)
			i.raceAcquire(p)
			if l := i.pools[p]; len(l) > 0 {
				v := l[len(l)-1]
				i.pools[p] = l[:len(l)-1]
				return v
			}
			t := mustDeref(fr.fn.Signature.Recv().Type())
			nf := (*p).(structure)[fieldIndex(t, "New")]
			switch f := nf.(type) {
			case *closure:
				return call(i, fr, token.NoPos, f, nil)
			case *ssa.Function:
				if f != nil {
					return call(i, fr, token.NoPos, f, nil)
				}
			}
			return iface{}
		},
		"(*sync.Pool).Put": func(fr *frame, args []value) value {
			p := args[0].(*value)
			fr.i.raceRelease(p)
			fr.i.pools[p] = append(fr.i.pools[p], args[1])
			return nil
		},
		"sync/atomic.AddUint64": func(fr *frame, args []value) value {
			i := fr.i
			p := args[0]
			i.raceAcquire(p)
			i.raceRelease(p)
			old := i.loadFrom(types.Typ[types.Uint64], p)
			nv := i.binop(token.ADD, types.Typ[types.Uint64], old, args[1])
			i.storeTo(types.Typ[types.Uint64], p, nv)
			i.schedPoint("atomic")
			return nv
		},
		"sync/atomic.LoadUint64": func(fr *frame, args []value) value {
			fr.i.raceAcquire(args[0])
			return fr.i.loadFrom(types.Typ[types.Uint64], args[0])
		},
	} {
		externals[k] = v
	}
}

// callMethod invokes a method on an interface value.
func (i *Interp) callMethod(fr *frame, recv iface, name string) value {
	if recv.t == nil {
		i.rtPanic("invalid memory address or nil pointer dereference (method on nil interface)")
	}
	ms := i.prog.MethodSets.MethodSet(recv.t)
	for k := 0; k < ms.Len(); k++ {
		sel := ms.At(k)
		if sel.Obj().Name() == name {
			fn := i.prog.MethodValue(sel)
			return call(i, fr, token.NoPos, fn, []value{recv.v})
		}
	}
	panic("callMethod: no method " + name + " on " + recv.t.String())
}
