#!/bin/bash
# run_mutants_par.sh <pid>: runs ./check <pid> against every mutant of that property in its own worktree (VERIF_REPO)
pid=$1; PREFIX=${PREFIX:-/tmp/w2}
wt=/tmp/mr_$pid
git -C /repo worktree remove --force $wt 2>/dev/null
git -C /repo worktree add -q --detach $wt HEAD || exit 1
for m in $(ls -d ${PREFIX}_$pid/mutants/*/ | sed "s:/$::" | sort); do
  [ -f $m/patch.diff ] || continue
  k=$(basename $m); out=${OUTDIR:-/tmp/mutres}/${pid}_$k.log
  [ -s $out ] && continue
  (cd $wt && git checkout -q -- . && git apply $m/patch.diff) || { echo "APPLY-FAILED" > $out; continue; }
  (cd /verif && VERIF_REPO=$wt timeout 2400 ./check $pid --tier quick > $out 2>&1; echo "EXIT $?" >> $out)
  echo "$pid $k $(grep -c '^VIOLATION' $out) violations, $(tail -1 $out)"
done
git -C /repo worktree remove --force $wt
