#!/bin/bash
# try_mutant.sh C02-m1 <gosym args...> : applies the seeded patch to /repo, runs gosym, restores /repo
id=$1; shift
pid=${id%%-*}; k=${id##*-}
P=/tmp/wt_$pid/mutants/$k/patch.diff; [ -f $P ] || P=/verif/seeded/$id/patch.diff
cd /repo && git apply $P || exit 2
cd /verif && timeout 1500 bin/gosym "$@" -max-violations 3 -out /tmp/try.json 2>&1 | tail -1 | cut -c1-250
cd /repo && git checkout -q -- .
python3 - <<'PY'
import json
d=json.load(open('/tmp/try.json'))
seen=set()
for r in d['results']:
  for v in r['Violations'] or []:
    k=(v['msg'],v['kind'])
    if k in seen: continue
    seen.add(k); print('  ->',v['kind'],'|',v['msg'][:160],'|',v['where'][:80],'|',(v.get('log') or [])[-6:])
PY
