STRENGTHENED = {
 "C13-r3m2": "reported only by the happens-before data race tracker added to the engine in this round (write of waLog.mapping in Commit vs read in waLog.Get), confirmed natively with go test -race.",
 "C01-r3m1": "C01's check had no I/O-fault harness (the change needs a failing Commit, not a crash): txfile.VerifFault added to C01 (failed commit, further transactions, restart).",
 "C01-r3m2": "C01's check did not include the free-list serialization lemmas: VerifRegionRoundTrip and VerifFreelistSerialize added to C01 (recovery depends on them).",
 "C03-r3m1": "new operation set for VerifProgStore (overwrite, partial write, read, Flush, CheckpointWAL) with WALLimit 1 and 2 and a second transaction of 3 operations, so that a page with a committed overwrite entry is overwritten in a transaction that checkpoints.",
 "C03-r3m2": "same operation set; the native replay runs on a slow simulated disk (every write takes 2 ms) so that the background writer lags behind the transaction as it does in the engine's sequential mode.",
 "C04-r3m1": "new operation 'AllocN(2|3) without writing' and an allocation/free-only operation set for VerifProgReopen (3 operations), free-list shape invariants (no empty region, sorted, disjoint) in assertPartition.",
 "C07-r3m1": "new 'churn' operation set for VerifProgAbort: a block of 2-3 fresh pages, then 3-4 single allocations / frees of fresh pages in one aborted transaction.",
 "C11-r3m1": "VerifRegionRoundTrip / VerifFreelistSerialize added to C11 (a region decoded with a wrong count leaks pages after reopen).",
 "C11-r3m2": "VerifFault (Rollback after a failed Flush write) and VerifProgAbort added to C11.",
 "C12-r3m1": "pq.VerifQueueFault (flush whose transaction fails after the allocation, then retry) added to C12; new pq.VerifQueueFlushTail.",
 "C14-r3m2": "VerifMergeRegionLists asserts that the merged list shares no storage with its inputs; the lemma moved to the quick tier of C04 and C14.",
 "C18-r3m2": "VerifPathLock: new step 'write transaction on the open File' (bounded/unbounded, optional write/sync/mmap failure at Commit); the OS model's munmap rejects an empty region; counterexamples the native twin cannot reproduce are confirmed by concrete re-execution inside the engine.",
}
