#!/bin/bash
# try3.sh <patch.diff> <gosym args...>: applies a patch in a scratch worktree, runs gosym against it, removes the worktree
P=$1; shift
wt=/tmp/try3_$$
git -C /repo worktree add -q --detach $wt HEAD || exit 2
(cd $wt && git apply $P) || { echo APPLY-FAILED; git -C /repo worktree remove --force $wt; exit 2; }
cd /verif && timeout 1500 bin/gosym -repo $wt "$@" -max-violations 4 -out /tmp/try3_$$.json 2>&1 | tail -1 | cut -c1-250
python3 /tmp/showres.py /tmp/try3_$$.json | tail -n +2
rm -f /tmp/try3_$$.json
git -C /repo worktree remove --force $wt
