#!/usr/bin/env python3
"""store_r5.py <pid> "<change>" "<needs>": copies /tmp/w5_<pid>/mutants/m1 into seeded/<pid>-r5m1 and writes meta.json
from /tmp/mutres5/<pid>_confirm*.log (notes/verify_mutant.sh) and /tmp/mutres5/<pid>_m1.log (notes/run_mutants_par.sh).  Tooling, not machinery."""
import json, os, shutil, sys, glob
p, what, needs = sys.argv[1:4]
src, dst = f'/tmp/w5_{p}/mutants/m1', f'/verif/seeded/{p}-r5m1'
os.makedirs(dst, exist_ok=True)
for f in ('patch.diff', 'demo_test.go', 'notes.md'):
    if os.path.exists(f'{src}/{f}'):
        shutil.copy(f'{src}/{f}', dst)
confs = sorted(glob.glob(f'/tmp/mutres5/{p}_confirm*.log'))
conf = open(confs[-1]).read().strip().splitlines()[-1] if confs else 'not confirmed'
t = open(f'/tmp/mutres5/{p}_m1.log').read()
viol = [l[:200] for l in t.splitlines() if l.startswith('VIOLATION')]
json.dump({'property': p, 'round': 5, 'change': what, 'needs_to_manifest': needs,
           'confirmed': 'notes/verify_mutant.sh: ' + conf + ' (c_pass: demo passes without the change; b_fail: FAIL lines of the demo with it; a_fail: failures of the unedited suite with it)',
           'ran': f'VERIF_REPO=<scratch worktree with the patch> ./check {p} --tier quick',
           'verdict': ('detected' if viol else 'NOT detected') + ' by ./check %s --tier quick (%s)' % (p, t.strip().splitlines()[-1]),
           'violations': viol}, open(dst + '/meta.json', 'w'), indent=1)
print(p, len(viol), 'violations')
