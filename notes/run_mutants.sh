#!/bin/bash
# runs ./check <pid> --tier quick on /repo with each delivered mutant applied (one at a time), restores /repo afterwards
mkdir -p /tmp/mutres
cd /repo && git status --short | grep -v '^??' && { echo "/repo not clean"; exit 1; }
for m in $(ls -d ${PREFIX:-/tmp/wt}_C*/mutants/*/ | sed "s:/$::" | sort); do
  pid=$(echo $m | grep -o "C[0-9][0-9]" | head -1); k=$(basename $m)
  out=/tmp/mutres/${pid}_$k.log
  [ -s $out ] && continue
  cd /repo && git apply $m/patch.diff 2>/tmp/mutres/apply_err || { echo "APPLY-FAILED $(cat /tmp/mutres/apply_err)" > $out; git checkout -q -- .; continue; }
  cd /verif && timeout 1500 ./check $pid --tier ${TIER:-quick} > $out 2>&1; echo "EXIT $?" >> $out
  cd /repo && git checkout -q -- .
  echo "$pid $k $(grep -c '^VIOLATION' $out) violations, $(tail -1 $out)"
done
