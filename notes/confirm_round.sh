#!/bin/bash
# confirm_round.sh <prefix> <pid>: confirms every mutant of <prefix>_<pid>/mutants/m* with verify_mutant.sh in a fresh worktree
PREFIX=$1; pid=$2
wt=/tmp/cf_$pid
git -C /repo worktree remove --force $wt 2>/dev/null
git -C /repo worktree add -q --detach $wt HEAD || exit 1
for m in $(ls -d ${PREFIX}_$pid/mutants/m*/ 2>/dev/null | sed "s:/$::" | sort); do
  [ -f $m/patch.diff ] || continue
  echo "$pid $(basename $m) $(/verif/notes/verify_mutant.sh $wt $m)"
done
git -C /repo worktree remove --force $wt
