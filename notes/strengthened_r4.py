# Round 4.  Note: four strengthenings (InitMetaArea=1 variant, VerifMetaDamageThenCommit, fault kinds truncate/mmap/size in
# VerifResize, VerifPathLockResizeFail) were made from the agents' descriptions *before* the first run of the checks against the
# round-4 changes; for those changes the "first round" column therefore already includes that strengthening (marked below).
STRENGTHENED = {
 "C01-r4m2": "new variant InitMetaArea=1 of the program harnesses (the ownership partition fails right after the set-up); the variant was added to C04/C11 before the first run and to C01 after it.",
 "C04-r4m1": "(before the first run) new variant InitMetaArea=1 of VerifProgOwn.",
 "C11-r4m2": "(before the first run) new variant InitMetaArea=1 of VerifProgOwn.",
 "C16-r4m1": "(before the first run) new harness VerifMetaDamageThenCommit: real file, older header damaged with a fully symbolic txid (and checksum), open, 1-2 commits, reopen.",
 "C18-r4m2": "(before the first run) new harness VerifPathLockResizeFail and fault kinds truncate/mmap/size in the resize step of VerifResize: the engine reports the deadlock of the failing Open.",
 "C02-r4m1": "new lock-protocol configuration 1 reader + 2 writers with 2 preemptions (the reader must be woken by the end of commit 1 and overtaken by writer 2); added to C02, C09, C13.",
 "C09-r4m1": "same configuration (1R+2W, 2 preemptions).",
 "C02-r4m2": "new overwrite-log operation set for VerifShadow (overwrite, Flush, Page.Flush; 4 operations after a committed overwrite) so that an overwrite page released by the writer is re-used while a reader still reads through it.",
 "C04-r4m2": "new step lemma VerifTryGrow: metaManager.tryGrow from a symbolic allocator state (maximum, end markers, free data region), with and without the overflow area; no page of the meta area may remain allocatable for the data allocator. (The from-init programs cannot reach a multi-page meta request on a 64-page file.)",
 "C05-r4m1": "pq.VerifQueueFull (Write failing on a full file and retried) added to C05's harness list.",
 "C08-r4m2": "VerifResize (open-time maintenance transactions with injected failures) added to C08's harness list.",
 "C12-r4m2": "new harness pq.VerifQueueAckFullFile: the queue shares its file with other data that uses up every free data and meta page; ACK must still succeed.",
 "C14-r4m1": "VerifResizeSpecial: third new limit inside the overflow pages in use, and the assertion 'raising the limit never cuts the file' (also in VerifResize).",
 "C17-r4m1": "checkCounters compares the ACKed callback total with the successful ACKs at every quiescent point (a rejected ACK must not be reported).",
}
