#!/bin/bash
# verify_mutant.sh <worktree> <mutant-dir>: confirms (a) suite passes with mutant, (b) demo fails with it, (c) demo passes without.
export GOFLAGS=-mod=mod GOPROXY=off GOSUMDB=off GOTOOLCHAIN=local
WT=$1; M=$2; OUT=$M/confirm.txt
cd $WT || exit 2
git checkout -q -- . ; rm -f zz_demo_test.go pq/zz_demo_test.go
DEMO=$(ls $M/*_test.go 2>/dev/null | head -1)
[ -z "$DEMO" ] && { echo "no demo" > $OUT; exit 2; }
PKG=$(grep -m1 '^package ' $DEMO | awk '{print $2}')
TAGS=$(grep -m1 '^//go:build ' $DEMO | sed 's#//go:build ##' | tr -d '()' | awk '{print $1}')
DST=.; [ "$PKG" = "pq" ] && DST=pq; [ "$PKG" = "pq_test" ] && DST=pq
cp $DEMO $DST/zz_demo_test.go
TESTS=$(grep -o '^func Test[A-Za-z0-9_]*' $DEMO | sed 's/func //' | paste -sd'|')
run_demo() { (cd $DST && timeout 900 go test ${TAGS:+-tags $TAGS} -vet=off -count=1 -run "^($TESTS)\$" . 2>&1 | tail -5); }
echo "== (c) demo without mutant" > $OUT; C=$(run_demo); echo "$C" >> $OUT
git apply $M/patch.diff || { echo "patch does not apply" >> $OUT; exit 2; }
echo "== (b) demo with mutant" >> $OUT; B=$(run_demo); echo "$B" >> $OUT
rm -f $DST/zz_demo_test.go
echo "== (a) suite with mutant" >> $OUT
A=$(timeout 1500 go test -vet=off -count=1 $(go list ./... | grep -v /mutants) 2>&1 | grep -v "no test files" | tail -12); echo "$A" >> $OUT
git checkout -q -- .
ok_c=$(echo "$C" | grep -c '^ok'); fail_b=$(echo "$B" | grep -c 'FAIL'); fail_a=$(echo "$A" | grep -c 'FAIL')
echo "RESULT c_pass=$ok_c b_fail=$fail_b a_fail=$fail_a" >> $OUT
tail -1 $OUT
