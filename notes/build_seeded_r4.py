#!/usr/bin/env python3
"""Adds the round-3 seeded changes (/tmp/w4_C*/mutants/*) to /verif/seeded/<pid>-r3<k>/ and regenerates
seeded/README.md from all seeded/*/meta.json.  Result logs: /tmp/mutres4_round1 (checks as they were when the
changes were delivered) and /tmp/mutres3 (final)."""
import glob, json, os, re, shutil, sys
sys.path.insert(0, os.path.dirname(os.path.abspath(__file__)))
from mutant_info_r4 import INFO
try:
    from strengthened_r4 import STRENGTHENED
except Exception:
    STRENGTHENED = {}

def parse(log):
    if not os.path.exists(log):
        return None
    t = open(log).read()
    ex = re.search(r"EXIT (\d+)", t)
    viol = re.findall(r"^VIOLATION property=(\S+) replay=\S+\n\s+(\S+): (.*?) \[", t, re.M)
    dis = re.findall(r"^ENGINE-DISAGREEMENT: (\S+): solver counterexample for '(.*?)'", t, re.M)
    return {"exit": int(ex.group(1)) if ex else None,
            "violations": [{"harness": h, "assertion": m[:200]} for _, h, m in viol][:4],
            "engine_only": [{"harness": h, "assertion": m[:200]} for h, m in dis][:2]}

def verdict(r):
    if r is None: return "not run"
    if r["exit"] == 1 and r["violations"]: return "detected"
    if r["exit"] == 3: return "engine found it, native replay did not reproduce (ENGINE-DISAGREEMENT)"
    if r["exit"] == 2: return "inconclusive"
    return "missed"

for m in sorted(glob.glob("/tmp/w4_C*/mutants/m*/")):
    m = m.rstrip("/")
    if not os.path.exists(f"{m}/patch.diff"):
        continue
    pid = re.search(r"w4_(C\d+)", m).group(1); k = os.path.basename(m); mid = f"{pid}-r4{k}"
    dst = f"/verif/seeded/{mid}"
    os.makedirs(dst, exist_ok=True)
    shutil.copy(f"{m}/patch.diff", dst)
    for f in glob.glob(f"{m}/*_test.go"):
        shutil.copy(f, f"{dst}/demo_test.go")
    if os.path.exists(f"{m}/notes.md"):
        shutil.copy(f"{m}/notes.md", f"{dst}/agent_notes.md")
    conf = open(f"{m}/confirm.txt").read() if os.path.exists(f"{m}/confirm.txt") else ""
    r = re.search(r"RESULT c_pass=(\d+) b_fail=(\d+) a_fail=(\d+)", conf)
    confirmed = bool(r and int(r.group(1)) >= 1 and int(r.group(2)) >= 1 and int(r.group(3)) == 0)
    demo = open(f"{dst}/demo_test.go").read() if os.path.exists(f"{dst}/demo_test.go") else ""
    pkg = (re.search(r"^package (\w+)", demo, re.M) or [None, "?"])[1]
    r1 = parse(f"/tmp/mutres4_round1/{pid}_{k}.log")
    r2 = parse(f"/tmp/mutres4_final/{pid}_{k}.log")
    change, needs = INFO.get(mid, ("", ""))
    meta = {"id": mid, "round": 4, "property": pid, "change": change, "needs_to_manifest": needs,
            "demonstration": {"file": "demo_test.go", "package": pkg,
                              "run": "copy into the package directory of a worktree with patch.diff applied; go test -vet=off -count=1 -run <Test> . (see agent_notes.md)"},
            "confirmed_by_me": {"script": "/verif/notes/verify_mutant.sh <worktree> <mutant dir>", "suite_passes_with_change": confirmed,
                                "demo_fails_with_change": confirmed, "demo_passes_without_change": confirmed, "raw": conf.strip().split("\n")[-1] if conf else ""},
            "checks": {"command": f"git -C /repo apply seeded/{mid}/patch.diff; ./check {pid} --tier quick; git -C /repo checkout -- .",
                       "first_round": {"verdict": verdict(r1), **(r1 or {})},
                       "after_strengthening": {"verdict": verdict(r2), **(r2 or {})}},
            "strengthening": STRENGTHENED.get(mid, "")}
    json.dump(meta, open(f"{dst}/meta.json", "w"), indent=1)

rows = [json.load(open(f)) for f in sorted(glob.glob("/verif/seeded/*/meta.json"))]
with open("/verif/seeded/README.md", "w") as f:
    f.write("# Seeded changes (independent sub-agents) and which check reports them\n\n"
            "Each change compiles and passes the 338 tests; each was confirmed with `notes/verify_mutant.sh` "
            "(suite passes with it, demonstration fails with it, demonstration passes without it).  "
            "`first round` = the checks as they were when the change was delivered; `final` = after strengthening.  "
            "Ids `Cxx-mK` are the first two rounds, `Cxx-r3mK` the third and `Cxx-r4mK` the fourth round (both run against the tree with the `fix:` commits; for round 4 see the note in `notes/strengthened_r4.py` about strengthening done before the first run).  The 37 changes of rounds 1-2 were re-run against the final checks on 2026-09-24 (three of their patches rebased onto the repaired tree): all 37 are still reported (`checks.regression_on_final_checks` in their meta.json).\n\n"
            "| id | change | needs | first round | final | reported by |\n|---|---|---|---|---|---|\n")
    for m in rows:
        fin = m["checks"]["after_strengthening"]
        by = "; ".join(sorted({v["harness"] for v in fin.get("violations", [])})) if fin.get("violations") else ""
        f.write(f"| {m['id']} | {m['change']} | {m['needs_to_manifest']} | {m['checks']['first_round']['verdict']} | {fin['verdict']} | {by} |\n")
    f.write("\nStrengthening done for the changes missed when they were delivered:\n\n")
    for m in rows:
        if m["strengthening"]:
            f.write(f"* **{m['id']}** — {m['strengthening']}\n")
print(len(rows), "seeded changes")
