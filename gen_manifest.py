#!/usr/bin/env python3
"""Regenerates MANIFEST.json from checks.py (run after editing checks.py)."""
import json, os, sys
sys.path.insert(0, os.path.dirname(os.path.abspath(__file__)))
import checks as CH

props = [json.loads(l) for l in open("properties.jsonl")]
checks = []
na = []
for p in props:
    pid = p["id"]
    spec = CH.CHECKS.get(pid)
    if not spec or not spec["harnesses"] or spec.get("disabled"):
        na.append({"property_id": pid, "reason": (spec or {}).get("na_reason", "check not built yet (see DESIGN.md section 3 for the plan)")})
        continue
    checks.append({
        "property_id": pid,
        "quick_cmd": "./check %s --tier quick" % pid,
        "thorough_cmd": "./check %s --tier thorough" % pid,
        "evidence_file": "/verif/evidence/%s.json" % pid,
        "replay_cmd_template": "./check %s --replay {path}" % pid,
        "engine": "gosym",
        "level_claimed": {
            "category": "model_checking",
            "text": spec.get("level_text", "Bounded symbolic execution of the real code (go/ssa of /repo's working tree) with an SMT solver deciding every branch and assertion: holds for every value of the symbolic inputs within the stated bounds; counterexamples are replayed natively before they are reported. Bounds: " + spec.get("bounds", "")),
            "design_ref": "DESIGN.md section 3, " + pid,
        },
        "level_note": spec.get("level_note", "Trusted: gosym's SSA semantics (validated per run against native execution of witness assignments), z3, the environment stubs listed in the evidence file, and the paper composition of lemmas. Outside the claim: " + spec.get("outside", "")),
        "technique": spec.get("technique", "solver-based bounded symbolic execution of go/ssa (gosym + z3), native replay of counterexamples"
                              + ("; explored schedules are additionally checked by a happens-before data race tracker (confirmed with go test -race)" if pid in ("C02", "C09", "C13", "C18") else "")),
    })
m = {
    "version": 1,
    "setup_cmd": "cd /verif/engine && GOFLAGS=-mod=mod GOPROXY=off GOSUMDB=off GOTOOLCHAIN=local go build -o /verif/bin/gosym ./cmd/gosym",
    "hooks": {"guard": "verif",
              "enable": "harnesses are injected as build overlays (go/packages Overlay for gosym, go test -overlay for native replay) with -tags verif / verif,verifnative; no hook source in /repo",
              "baseline_off_cmd": "cd /repo && go test -vet=off -count=1 -timeout 25m ./...",
              "source_commits": [], "add_only": True},
    "engines": [{"name": "gosym", "path": "/verif/engine", "serves_properties": [c["property_id"] for c in checks],
                 "kind_free_text": "symbolic executor for Go SSA (fork of x/tools/go/ssa/interp) + z3 -in; decision-vector re-execution, 16 workers; native replay through go test -overlay"}],
    "checks": checks,
    "notes": "See DESIGN.md. known_findings.json lists fixed/known defects. ./check <id> --tier quick|thorough.",
    "not_applicable": na,
}
json.dump(m, open("MANIFEST.json", "w"), indent=1)
print("checks:", [c["property_id"] for c in checks], "n/a:", [x["property_id"] for x in na])
