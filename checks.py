"""Per-property harness lists, bounds and trusted-base notes used by ./check."""

DEFAULTS = {
    "workers": 16, "timeout_ms": 30000, "max_paths": 20000, "max_steps": 3000000,
    "max_decisions": 400, "budget": "280s", "params": {},
}

STUBS = [
    "time.Now/time.Since -> zero", "fmt.Sprintf/Errorf/Sprint -> opaque string", "os.Getpagesize -> 4096",
    "reflect.TypeOf (layout.go init self-check) -> stub", "sync.Mutex/Cond/WaitGroup/Pool, atomic.AddUint64 -> engine model with documented blocking semantics",
    "sort.Slice -> insertion sort driven by the real less(); ties optionally nondeterministic", "sort.SliceStable -> stable insertion sort",
    "bin.UnsafeCastStruct -> typed view onto the byte buffer", "math/bits.LeadingZeros64 -> ite ladder",
    "package init() executed only for go-txfile packages, go-bin and io",
]

ASSUMPTIONS = [
    "gosym interprets go/ssa with Go semantics (fork of golang.org/x/tools/go/ssa/interp); validated per run by executing witness assignments natively",
    "z3 4.8.12 verdicts (any '(error' line or 'unknown' makes the run inconclusive, never a pass)",
    "composition of lemmas into history-level statements is a paper argument (DESIGN.md section 3)",
]

CHECKS = {}

def prop(pid, **kw):
    CHECKS[pid] = kw
    kw.setdefault("harnesses", [])

def H(entry, what="", bounds="", **kw):
    d = {"entry": entry, "what": what, "bounds": bounds}
    d.update(kw)
    return d

# ------------------------------------------------------------------ C10
prop("C10",
     bounds="region ids < 2^55, counts in [1,2^32), both flag values, arbitrary previous buffer bytes",
     outside="lists spanning more metadata pages than the stated bound",
     harnesses=[
         H("txfile.VerifRegionRoundTrip", "decodeRegion(encodeRegion(r)) == r, encoded length == regionEncodingSize(r)",
           "id<2^55, count in [1,2^32), meta flag, 12 junk bytes"),
     ])

# ------------------------------------------------------------------ C03
prop("C03",
     bounds="fresh bounded file (64 pages of 1 KiB), 2 committed pages, then <= 2 transactions of <= 2-3 symbolic operations "
            "(alloc, allocN, overwrite, partial SetBytes, Load+MarkDirty, Free, Tx.Flush, Page.Flush, CheckpointWAL, SetRoot), symbolic endings, symbolic content bytes",
     outside="longer transactions / histories, other page sizes, background-writer batchings other than 'writer runs when the transaction blocks' (separate writer lemma)",
     harnesses=[
         H("txfile.VerifProgStore", "from-init symbolic program against a reference model: read-your-writes, committed view, reopen",
           "ntx=1,nops=2 (quick)", quick={"params": {"ntx": 1, "nops": 2}}, thorough={"params": {"ntx": 2, "nops": 2, "nops2": 1}, "max_paths": 200000, "budget": "1500s"}),
     ])
