"""Per-property harness lists, bounds and trusted-base notes used by ./check."""

DEFAULTS = {
    "workers": 16, "timeout_ms": 30000, "max_paths": 60000, "max_steps": 3000000,
    "max_decisions": 400, "budget": "280s", "params": {},
}

STUBS = [
    "time.Now/time.Since -> zero", "fmt.Sprintf/Errorf/Sprint -> opaque string", "os.Getpagesize -> 4096",
    "reflect.TypeOf (layout.go init self-check) -> stub", "sync.Mutex/Cond/WaitGroup/Pool, atomic.AddUint64 -> engine model with documented blocking semantics",
    "sort.Slice -> insertion sort driven by the real less(); ties optionally nondeterministic", "sort.SliceStable -> stable insertion sort",
    "bin.UnsafeCastStruct -> typed view onto the byte buffer", "math/bits.LeadingZeros64 -> ite ladder",
    "package init() executed only for go-txfile packages, go-bin and io",
]

ASSUMPTIONS = [
    "gosym interprets go/ssa with Go semantics (fork of golang.org/x/tools/go/ssa/interp); validated per run by executing witness assignments natively",
    "z3 4.8.12 verdicts (any '(error' line or 'unknown' makes the run inconclusive, never a pass)",
    "composition of lemmas into history-level statements is a paper argument (DESIGN.md section 3)",
]

CHECKS = {}

def prop(pid, **kw):
    CHECKS[pid] = kw
    kw.setdefault("harnesses", [])

def H(entry, what="", bounds="", **kw):
    d = {"entry": entry, "what": what, "bounds": bounds}
    d.update(kw)
    return d

def HS(repeat, entry, what="", bounds="", **kw):
    """schedule dependent harness: native replays are repeated with timing jitter"""
    return H(entry, what, bounds, native_repeat=repeat, **kw)

# ------------------------------------------------------------------ C10
prop("C10",
     bounds="region ids < 2^55, counts in [1,2^32), both flag values, arbitrary previous buffer bytes",
     outside="lists spanning more metadata pages than the stated bound",
     harnesses=[
         H("txfile.VerifRegionRoundTrip", "decodeRegion(encodeRegion(r)) == r, encoded length == regionEncodingSize(r)",
           "id<2^55, count in [1,2^32), meta flag, 12 junk bytes"),
     ])

# ------------------------------------------------------------------ C03
prop("C03",
     bounds="fresh bounded file (64 pages of 1 KiB), 2 committed pages, then <= 2 transactions of <= 2-3 symbolic operations "
            "(alloc, allocN, overwrite, partial SetBytes, Load+MarkDirty, Free, Tx.Flush, Page.Flush, CheckpointWAL, SetRoot), symbolic endings, symbolic content bytes",
     outside="longer transactions / histories, other page sizes, background-writer batchings other than 'writer runs when the transaction blocks' (separate writer lemma)",
     harnesses=[
         H("txfile.VerifProgStore", "from-init symbolic program against a reference model: read-your-writes, committed view, reopen",
           "ntx=1,nops=2 (quick)", quick={"params": {"ntx": 1, "nops": 2}}, thorough={"params": {"ntx": 2, "nops": 2, "nops2": 1}, "max_paths": 200000, "budget": "1500s"}),
         H("txfile.VerifProgStore", "overwrite log focus: overwrite / read-only access / Flush with WALLimit=2 (automatic checkpoints), 2 committed transactions",
           "ops {overwrite, read, flush}, 2x2 ops (thorough: 3 transactions; and the 7-op set)", quick={"params": {"walops": 2, "wallimit": 2, "ntx": 2, "nops": 2, "nops2": 2}},
           thorough={"params": {"walops": 2, "wallimit": 2, "ntx": 3, "nops": 2, "nops2": 2}, "max_paths": 300000, "budget": "1500s"}),
         H("txfile.VerifProgStore", "overwrite log with explicit and automatic checkpoints: {overwrite, partial write, read, Flush, CheckpointWAL}, one committed transaction of 1 operation, then one of 3 (WALLimit=1); native replay on a slow disk (writer lags behind)",
           "walops=3 wallimit=1 nops=1 nops2=3 (thorough: nops=2)", quick={"params": {"walops": 3, "wallimit": 1, "ntx": 2, "nops": 1, "nops2": 3}},
           thorough={"params": {"walops": 3, "wallimit": 1, "ntx": 2, "nops": 2, "nops2": 3}, "max_paths": 400000, "budget": "1500s"}),
         H("txfile.VerifProgStore", "same with WALLimit=2", "walops=3 wallimit=2", quick={"params": {"walops": 3, "wallimit": 2, "ntx": 2, "nops": 1, "nops2": 3}},
           thorough={"params": {"walops": 3, "wallimit": 2, "ntx": 2, "nops": 2, "nops2": 3}, "max_paths": 400000, "budget": "1500s"}),
         H("txfile.VerifProgStore", "same with the 7-operation overwrite-log set and 3 committed pages", "walops=1", tiers=("thorough",),
           thorough={"params": {"walops": 1, "wallimit": 2, "setup": 3, "ntx": 2, "nops": 2, "nops2": 2}, "max_paths": 300000, "budget": "1500s"}),
         H("txfile.VerifFault", "transactions that follow a failed one read and write correctly; a Commit that returns nil has written every page", "nops=1",
           quick={"params": {"nops": 1}}, thorough={"params": {"nops": 2}, "max_paths": 300000, "budget": "1500s"}),
         H("txfile.VerifWriterOrder", "real background writer: per page the last scheduled write is the last one issued, syncs separate what was scheduled before/after them; sort.Slice ties nondeterministic",
           "3 messages (thorough 4) with symbolic page ids out of 2 (thorough 3), symbolic sync positions, writer runs when the producer blocks (thorough: 1 preemption at sync operations)",
           thorough={"params": {"msgs": 4, "ids": 3, "preempt": 1}, "max_paths": 200000, "budget": "1200s"}),
     ])

PROG_BOUNDS = ("fresh file on the simulated disk (page size 1024, 64 pages or unbounded), 2 committed pages, "
               "transactions of <= 2-3 symbolic operations (alloc, alloc-without-write, allocN(2), free, free-new, overwrite, Tx.Flush, CheckpointWAL), "
               "symbolic endings and content bytes; variants: plain / InitMetaArea=4 / overflow area enabled / unbounded / InitMetaArea=4+WALLimit=1 / MaxSize not page aligned / InitMetaArea=1")
PROG_OUT = ("longer transactions and histories, page sizes other than 1024, map iteration orders other than insertion order, "
            "background-writer batchings other than 'writer runs when the transaction blocks'")

def variants(entry, what, quick_params, thorough_params, vs=(0, 1, 2, 3, 4), quick_vs=(0,), **kw):
    out = []
    for v in vs:
        tiers = ("quick", "thorough") if v in quick_vs else ("thorough",)
        q = dict(quick_params); q["variant"] = v
        t = dict(thorough_params); t["variant"] = v
        out.append(H(entry, what + " [variant %d]" % v, "quick %s / thorough %s" % (quick_params, thorough_params),
                     tiers=tiers, quick={"params": q}, thorough={"params": t, "max_paths": 300000, "budget": "1200s"}, **kw))
    return out

FREECYCLE = H("txfile.VerifProgFreeCycle", "10 committed pages, two transactions that only free 1-2 (thorough 1-4) pages each (last or second page), then alloc/overwrite, reopen: partition, contents, space after every commit",
              "maxfree=2 nops=2 (thorough 4/3)", thorough={"params": {"maxfree": 4, "nops": 3}, "max_paths": 300000, "budget": "1500s"})
OVERFLOW = H("txfile.VerifProgOverflow", "bounded file with a full data area; a transaction with the overflow area enabled overwrites 1-3 pages (optional Flush), commit or rollback, reopen, then frees: partition, contents, snapshot after rollback",
             "InitMetaArea=2 (thorough also 0 and 4, WALLimit 1)", thorough={"params": {"metaarea": 0, "wallimit": 1, "maxover": 4}})

ALLOCFREE_REOPEN = H("txfile.VerifProgReopen", "allocation/free-only transactions of 3 (thorough 4) operations (alloc without write, allocN, free of a page allocated in the same transaction, free), commit, reopen: "
                     "FileStats reported on open == FileStats of the running instance == model; snapshot, allocatable pages", "opset=1 nops=3 (thorough 4)",
                     quick={"params": {"opset": 1, "nops": 3, "ntx": 1, "nops2": 1}}, thorough={"params": {"opset": 1, "nops": 4, "ntx": 1, "nops2": 1}, "max_paths": 400000, "budget": "1500s"})

CHURN = H("txfile.VerifProgAbort", "allocation churn inside one aborted transaction: a block of 2-3 fresh pages, then single allocations and frees of fresh pages (recycling, end-marker shrink), "
          "Rollback / Close / failing Commit: allocator exactly as at Begin, follow-up allocations own their pages", "opset=2 nops=4 (thorough 5)",
          quick={"params": {"opset": 2, "nops": 4, "pre": 0}}, thorough={"params": {"opset": 2, "nops": 5, "pre": 0}, "max_paths": 400000, "budget": "1500s"})

# ------------------------------------------------------------------ C07
prop("C07", bounds=PROG_BOUNDS, outside=PROG_OUT,
     harnesses=[CHURN] + variants("txfile.VerifProgAbort", "aborted transaction (Rollback/Close) vs. snapshot at Begin: allocator partition, markers, meta area, overwrite log, header, stats, file size, follow-up allocations",
                        {"nops": 2, "pre": 1}, {"nops": 2, "pre": 1}, quick_vs=(0, 2)) + [OVERFLOW,
               H("txfile.VerifProgAbort", "deeper: 3 operations in the aborted transaction", "nops=3, pre=0", tiers=("thorough",), thorough={"params": {"nops": 3, "pre": 0}, "max_paths": 400000, "budget": "1500s"})])

# ------------------------------------------------------------------ C04
REG_LEMMAS_QUICK = [
    H("txfile.VerifFreelistAddRegion", "AddRegion from an arbitrary free list: invariant kept, page free afterwards iff free before or in the added region", "<= 2 regions (thorough 3), ids < 2^54, counts <= 2^31",
      quick={"params": {"regions": 2}, "timeout_ms": 5000}, thorough={"params": {"regions": 3}, "timeout_ms": 5000, "budget": "1700s"}),
    H("txfile.VerifFreelistAllocContinuous", "AllocContinuousRegion, both orders: n continuous free pages or nothing; never a page that was not free; list invariant", "<= 2 regions (thorough 3)",
      quick={"params": {"regions": 2}, "timeout_ms": 5000}, thorough={"params": {"regions": 3}, "timeout_ms": 5000, "budget": "1700s"}),
    H("txfile.VerifReleaseOverflow", "releaseOverflowPages drops only free pages beyond the maximum directly below the end marker", "<= 2 regions (3 regions: the solvers leave queries undecided)",
      quick={"params": {"regions": 2}, "timeout_ms": 5000}, thorough={"params": {"regions": 2}, "timeout_ms": 5000, "budget": "1700s"}),
]
TRYGROW = H("txfile.VerifTryGrow", "metaManager.tryGrow from an arbitrary allocator state (symbolic maximum and end markers, optional free data region), with and without the overflow area: every page that becomes a meta page left the data allocator "
      "(no meta page in the data free list or in the tail the data area can still grow into), exact counts, data area drained before the overflow area is used", "max < 2^30 pages, 1 free region (thorough 2), 1-3 pages",
      quick={"params": {"regions": 1, "maxcount": 3}, "timeout_ms": 10000}, thorough={"params": {"regions": 2, "maxcount": 3}, "timeout_ms": 10000, "budget": "1200s"})
REG_LEMMAS_THOROUGH = [
    H("txfile.VerifFreelistAllocRegions", "AllocRegionsWith, both orders: exactly n free pages, reported sorted, none both free and handed out", "<= 2 regions", tiers=("thorough",),
      thorough={"params": {"regions": 2}, "timeout_ms": 5000, "budget": "1700s"}),
    H("txfile.VerifFreelistRemoveRegion", "RemoveRegion of an arbitrary region: exactly the intersection is removed", "<= 2 regions", tiers=("thorough",),
      thorough={"params": {"regions": 2}, "timeout_ms": 5000, "budget": "1700s"}),
    H("txfile.VerifMergeRegionLists", "mergeRegionLists is the union, sorted and disjoint, and a list of its own (the commit trims it in place while the inputs stay the live free lists)", "2 x <= 2 regions",
      quick={"params": {"regions": 2}, "timeout_ms": 5000}, thorough={"params": {"regions": 2}, "timeout_ms": 5000, "budget": "1700s"}),
]

prop("C04", bounds=PROG_BOUNDS, outside=PROG_OUT,
     harnesses=REG_LEMMAS_QUICK + REG_LEMMAS_THOROUGH + [TRYGROW, FREECYCLE, OVERFLOW, ALLOCFREE_REOPEN, CHURN,
               H("txfile.VerifRegionRoundTrip", "free-list entries survive serialization (a wrongly decoded region would make live pages allocatable after reopen)", "id<2^55, count in [1,2^32)"),
               H("txfile.VerifProgAbort", "after Rollback / Close / a Commit that fails with an injected I/O error, follow-up allocations own their pages", "nops=2, pre=1",
                 quick={"params": {"nops": 2, "pre": 1}}, thorough={"params": {"nops": 2, "pre": 1, "variant": 4}, "max_paths": 300000, "budget": "1200s"})] + variants("txfile.VerifProgOwn", "every id returned by Alloc/AllocN is >= 2, not live, not freed-but-committed, not internal; ownership partition after every commit",
                        {"nops": 3, "ntx": 1}, {"nops": 3, "ntx": 1}, vs=(0, 1, 2, 3, 4, 6), quick_vs=(0, 1, 6)) + [
               H("txfile.VerifProgOwn", "deeper: two transactions of 2 operations", "nops=2, ntx=2", tiers=("thorough",), thorough={"params": {"nops": 2, "ntx": 2}, "max_paths": 400000, "budget": "1500s"})])

# ------------------------------------------------------------------ C11
prop("C11", bounds=PROG_BOUNDS, outside=PROG_OUT,
     harnesses=variants("txfile.VerifProgOwn", "allocatable + live + meta area + 2 == max pages, extent <= max, FileStats == model after every commit",
                        {"nops": 3, "ntx": 1}, {"nops": 3, "ntx": 1}, vs=(0, 1, 4, 5, 6), quick_vs=(0, 5, 6)) + [TRYGROW, FREECYCLE, ALLOCFREE_REOPEN,
         H("txfile.VerifRegionRoundTrip", "free regions survive serialization exactly (a region decoded with a wrong count would leak or duplicate pages after a reopen)", "id<2^55, count in [1,2^32)"),
         H("txfile.VerifFreelistSerialize", "multi-page free list round trip: the reopened file counts the same free pages", "<= 2 meta + 4 data regions", thorough={"params": {"meta": 3, "data": 5}, "max_paths": 200000, "budget": "1200s"}),
         H("txfile.VerifFault", "transactions that end with an I/O failure (failed Commit; Rollback after a failed Flush write) give every page back: allocator snapshot, space identity and stats unchanged", "nops=1",
           quick={"params": {"nops": 1}}, thorough={"params": {"nops": 2}, "max_paths": 300000, "budget": "1500s"}),
         H("txfile.VerifProgAbort", "aborted transactions (Rollback / Close / failing Commit) return every page: counting identity after abort", "nops=2, pre=1",
           quick={"params": {"nops": 2, "pre": 1}}, thorough={"params": {"nops": 2, "pre": 1, "variant": 1}, "max_paths": 300000, "budget": "1200s"})])

CHECKS["C10"]["harnesses"] += [
    H("txfile.VerifFreelistSerialize", "readFreeList(writeFreeLists(meta, data)) == (meta, data) over several 64-byte pages; chain links exactly the allocated pages; the predictor never under-estimates", "<= 2 meta + 4 data regions, 64-bit ids, 32-bit counts",
      thorough={"params": {"meta": 3, "data": 5}, "max_paths": 200000, "budget": "1200s"}),
    H("txfile.VerifWALSerialize", "readWAL(writeWAL(mapping)) == mapping for ids < 2^56 over several pages", "<= 4 entries", thorough={"params": {"entries": 6}}),
]
CHECKS["C10"]["harnesses"] += variants("txfile.VerifProgReopen", "reopened instance == running instance (free lists, markers, meta area, overwrite log, root, stats, allocatable pages), then one more symbolic transaction",
                                        {"nops": 2, "ntx": 1, "nops2": 1}, {"nops": 3, "ntx": 1, "nops2": 1}, quick_vs=(0, 4))
CHECKS["C10"]["harnesses"].append(OVERFLOW)
CHECKS["C10"]["harnesses"].append(ALLOCFREE_REOPEN)
CHECKS["C10"]["bounds"] += "; " + PROG_BOUNDS

# ------------------------------------------------------------------ C16
prop("C16",
     bounds="both txids and roots over the full 64-bit range; each header intact or damaged in checksum / magic / version (any differing 32-bit value) or zeroed; "
            "page-size field of header 0 any value != 1024; one changed byte at any of the offsets 0..7 and 72..83 (any differing value); one FNV-1a step from any 32-bit state",
     outside="multi-byte damage that happens to be FNV-consistent (indistinguishable from an intact header for any 32-bit checksum); one-byte damage at hashed offsets 8..71 follows from the FNV step lemmas by induction (paper step), the whole-stream query is out of the solvers' reach",
     assumptions=["hash/fnv.New32a/Write/Sum32/UnmarshalBinary interpreted from the standard library source"],
     harnesses=[
         H("txfile.VerifMetaSelect", "readValidMeta: error iff both damaged; the only intact one; newer wins by signed txid difference incl. wrap; never panics", "2 x 4 damage kinds, 64-bit txids/roots"),
         H("txfile.VerifMetaSlot1Location", "locating header 1 does not depend on a damaged header 0", "any 32-bit page-size value in header 0"),
         H("txfile.VerifMetaOneByte", "Validate rejects a header with one changed byte", "offsets 0..7, 72..83 (quick) / 0..7, 64..83 (thorough)",
           thorough={"params": {"tail": 64}, "timeout_ms": 120000}),
         H("txfile.VerifFnvStep", "one step of hash/fnv 32a is injective in state and in byte", "all 2^32 states x 2^8 bytes"),
         H("txfile.VerifMetaDamageThenCommit", "a damaged older header (any 64-bit value in its txid field, optionally any checksum) never influences later commits: commit numbers continue from the intact header, the newest commit wins after reopen",
           "real file, 2 commits, damage, open, 1-2 commits, reopen; garbage txid/checksum fully symbolic"),
         H("txfile.VerifCheckTruncate", "a commit never truncates below the extent of the previous commit (the state the other header describes stays readable if the newest header is damaged)", "all 64-bit markers/sizes < 2^40 pages"),
     ])

# ------------------------------------------------------------------ C15
prop("C15",
     bounds="fresh 64-page file with 2 committed pages; receiver lifecycle in {committed, rolled back, closed, failed commit (injected sync failure), read-only active, read-only closed} x 18 method groups of Tx and Page; "
            "inside an active write transaction: out-of-range ids (any 64-bit value), freed page, dirty page, flushed page, oversize contents, fresh page without contents, AllocN(n<=0), AllocN beyond the maximum",
     outside="receivers reached through longer histories (the checks use one prefix history); pq receivers are covered by the pq harnesses of this property",
     harnesses=[
         H("txfile.VerifMisuseLifecycle", "calls on finished / read-only transactions and their pages: documented error kind, no panic, nothing changes, file not blocked", "6 lifecycle states x 18 method groups"),
         H("txfile.VerifShadow", "a read-only transaction gets InvalidPageID for page ids beyond its snapshot, also while a writer grows the file", "nops=2",
           quick={"params": {"nops": 2, "pre": 1}}, thorough={"params": {"nops": 3, "pre": 1}, "max_paths": 300000, "budget": "1200s"}),
         H("txfile.VerifMisuseActive", "invalid operations in an active write transaction: documented error kind, state unchanged after rollback", "9 cases, symbolic page id"),
     ])

# ------------------------------------------------------------------ C01
CRASH_BOUNDS = ("committed prefix state S (2 pages + 1 symbolic transaction), one symbolic transaction T of <= 1 (quick) / 2 (thorough) operations "
                "(alloc, overwrite, partial write, free, Flush, CheckpointWAL, SetRoot; commit or rollback), crash at every index of the recorded I/O log, "
                "loss patterns over the writes since the last completed sync: all kept / all lost / exactly one lost / exactly one kept (thorough: every subset when <= 4 writes), "
                "torn last write: header writes cut at 0/6/40/80/83 bytes, page writes cut in half; one fixed follow-up transaction + reopen on the recovered file")
CHECKS["C04"]["bounds"] += "; free-list step lemmas: lists of <= 2 (thorough 3) regions with 64-bit ids < 2^54 and counts <= 2^31, generic page"

prop("C01", bounds=CRASH_BOUNDS,
     outside=PROG_OUT + "; torn writes at other byte positions; real OS durability semantics (the disk model is: a completed sync makes everything issued before it durable; un-synced writes persist in any subset); "
             "rejection of a torn header that equals neither image rests on FNV not colliding (concrete headers here, so it is evaluated, not assumed)",
     harnesses=[H("txfile.VerifWriterBigBatch", "the data sync of a commit covers every queued page write, also beyond the writer's batch size (1024)", "1025 / 1525 / 2025 messages"),
                H("txfile.VerifWriterOrder", "per page the last scheduled write is the last one issued (sort ties nondeterministic); syncs separate what was scheduled before/after", "3 messages, 2 page ids",
                  thorough={"params": {"msgs": 4, "ids": 2, "preempt": 1}, "max_paths": 300000, "budget": "1200s"}),
                OVERFLOW,
                H("txfile.VerifFault", "a Commit that fails with an I/O error, further transactions, then a restart: the reopened file shows the last committed state (no mixture with the failed attempt, whose freed pages must not be re-used)",
                  "nops=1 quick / 2 thorough", quick={"params": {"nops": 1}}, thorough={"params": {"nops": 2}, "max_paths": 300000, "budget": "1500s"}),
                H("txfile.VerifProgOwn", "smallest pre-sized meta area (InitMetaArea=1): ownership partition from the first transaction on (a page owned twice would let a flush overwrite a committed page before the commit)", "variant 6, nops=3",
                  quick={"params": {"variant": 6, "nops": 3, "ntx": 1}}, thorough={"params": {"variant": 6, "nops": 3, "ntx": 1}, "max_paths": 300000, "budget": "1200s"}),
                H("txfile.VerifCheckTruncate", "checkTruncate never cuts below the extent of the last two transactions or the configured maximum", "all 64-bit markers/sizes < 2^40 pages"),
                H("txfile.VerifMetaDamageThenCommit", "a torn / damaged older header does not influence the commits that follow a recovery", "garbage txid/checksum fully symbolic"),
                H("txfile.VerifRegionRoundTrip", "recovery reads the free lists back exactly (a wrongly decoded region would let later transactions overwrite recovered pages)", "id<2^55, count in [1,2^32)"),
                H("txfile.VerifFreelistSerialize", "multi-page free list round trip", "<= 2 meta + 4 data regions", thorough={"params": {"meta": 3, "data": 5}, "max_paths": 200000, "budget": "1200s"}),
                ] + variants("txfile.VerifCrash", "recovery by the real Open code after a crash at any I/O boundary yields S or the complete S' (only once Commit was entered), recovered file fully operational",
                        {"nops": 1, "pre": 1}, {"nops": 2, "pre": 1, "fullmask": 1}, vs=(0, 1, 4), quick_vs=(0, 4)))

# ------------------------------------------------------------------ C08
prop("C08",
     bounds="committed prefix (2 pages + 1 symbolic transaction), one symbolic transaction of <= 1 (quick) / 2 (thorough) operations whose Commit meets an injected failure: "
            "kind in {write error, short write + error, sync, truncate, size, mmap}, the 0..4th call of that kind after Begin, burst 1..2; follow-up in {commit, flush+abort, none}; reopen. "
            "Size/MMap/Truncate failures inside a Commit that re-maps (AllocN(61|70) on an unbounded file) or truncates (after overflow use) the file, ordinal 0..1. Open/create with a failure at the 0..2nd call of each kind. Writer lemma: 3 messages, failure at any write / the data sync / the final sync",
     outside=PROG_OUT + "; failures of truncate/size/mmap during Commit are covered by two fixed scenarios only (growth past the 64 KiB mapping, truncation after overflow use); OS-level fault semantics are the stub's contract",
     harnesses=[
         H("txfile.VerifFault", "failing I/O during Commit: error, no panic, no hang, last committed state kept, follow-up transactions work, reopen shows that state or the complete failed attempt (final sync only)",
           "nops=1 quick / 2 thorough", quick={"params": {"nops": 1}}, thorough={"params": {"nops": 2}, "max_paths": 300000, "budget": "1500s"}),
         H("txfile.VerifFault", "same on an unbounded file", "variant 3", tiers=("thorough",), thorough={"params": {"nops": 2, "variant": 3}, "max_paths": 300000, "budget": "1500s"}),
         H("txfile.VerifFaultGrow", "Size / MMap / Truncate failing inside Commit (unbounded file grown past its mapping; bounded file cut back after the overflow area was used): error, no panic, File keeps a live mapping, "
           "last committed state readable, follow-up transaction and reopen work", "2 scenarios x {mmap, size, truncate, none} x 2 ordinals x 3 growth sizes", reach=["end", "mmap in Commit", "truncate in Commit"]),
         H("txfile.VerifResize", "I/O failures inside the open-time maintenance transactions (limit update, page release, preallocation, re-mapping): Open returns an error or a usable File, never panics or hangs; the file opens again", "as C14, fault kinds write/sync/truncate/mmap/size x 3 ordinals"),
         H("txfile.VerifOpenFault", "failing I/O while creating/opening: error (never a panic), no mapping left, later open works", "existing/new x prealloc x 6 kinds x 3 ordinals"),
         H("txfile.VerifCheckTruncate", "checkTruncate never cuts below the old state's extent, the new state's extent or the configured maximum", "all 64-bit markers/sizes < 2^40 pages"),
         H("txfile.VerifWriterBigBatch", "more than 1024 queued writes ahead of a sync request: the sync still comes after all of them, the header write after the sync", "1025 / 1525 / 2025 messages"),
         H("txfile.VerifWriterSticky", "real writer: after the first failure nothing reaches the target until the reset sync; waiters released with the error; writer usable again", "3 messages (thorough: 4 + 2 preemptions)",
           thorough={"params": {"msgs": 4, "preempt": 2}}),
     ])

# ------------------------------------------------------------------ C14
prop("C14",
     bounds="file created with a 128-page limit (page size 1024), 2 written pages, 0 / 68 / 100 further allocated pages, optionally 3 pages freed (end of file and middle); "
            "reopened with FlagUpdMaxSize and a limit of 64 / 96 / 160 pages or unbounded, with and without Prealloc, optionally with a write/sync/truncate/mmap/size failure at the 0..2nd call of that kind; then 2 transactions (10 overwrites, 3 allocations), plain reopen",
     outside="other size combinations and longer histories after the resize; the leaks O1/O2 of DESIGN.md section 4 (pages owned by nobody in the shrink transition) are not part of the statement",
     harnesses=[H("txfile.VerifResize", "data and root intact, no blocking, exact avail delta when growing, extent bound after shrinking, active header and plain reopen report the new limit (rounded down), "
                  "optional I/O failure during the update, second resize", "3 fills x 3 free patterns x 4 new limits (aligned/unaligned) x prealloc x {no fault, write, sync} x 3 ordinals x second limit",
                  thorough={"params": {"rounds": 3, "resizefaults": 5}, "max_paths": 300000}),
                H("txfile.VerifResizeSpecial", "a file created unbounded gets a limit; a bounded file whose overflow area is in use gets a larger limit: data, root and overwrite log intact, header carries the new limit, "
                  "allocations after the resize own their pages, partition, plain reopen reports the limit", "2 scenarios x 2 new limits x prealloc x 1-3 overflow overwrites"),
                H("txfile.VerifMergeRegionLists", "the free lists computed by a commit (also by the page-releasing transaction of a shrink) are lists of their own: a failing release transaction must not have touched the live lists", "2 x <= 2 regions",
                  quick={"params": {"regions": 2}, "timeout_ms": 5000}, thorough={"params": {"regions": 2}, "timeout_ms": 5000, "budget": "1700s"}),
                H("txfile.VerifResize", "same with InitMetaArea=8 (free regions border the end of the file, so the page-releasing transaction of a shrink runs)", "metaarea=8",
                  quick={"params": {"metaarea": 8}}, thorough={"params": {"metaarea": 8, "rounds": 3, "resizefaults": 5}, "max_paths": 300000})])

# ------------------------------------------------------------------ C09
LOCK_BOUNDS = ("real lock object: 2 readers + 2 writers with 1 preemption, 2 readers + 1 writer with 2 preemptions (thorough: 2+2 with 2, 3+1 with 2); "
               "real File: 1 writer (commit / rollback / close / failing commit, optional Flush) against 1-2 readers with 1 preemption (thorough: 1 reader with 2); "
               "context switches only at sync operations (Mutex/Cond/WaitGroup), at goroutine start and at harness yield points; Cond.Signal wakes a solver-chosen waiter")
prop("C09", bounds=LOCK_BOUNDS,
     outside="more threads / preemptions; interleavings below the granularity of sync operations are not explored (unsynchronised accesses are still reported by the happens-before tracker, for struct fields, variables, maps and small arrays; page buffers and the mapping are not tracked byte-wise); File.Close racing with a new Begin",
     harnesses=[
         HS(200, "txfile.VerifLockProtocol", "mutual exclusion of writers, exclusive vs shared sections, no deadlock / lost wake-up, lock idle at the end", "2R+2W, 1 preemption",
           quick={"params": {"readers": 2, "writers": 2, "preempt": 1}}, thorough={"params": {"readers": 2, "writers": 2, "preempt": 2}, "max_paths": 400000, "budget": "900s"}),
         HS(200, "txfile.VerifLockProtocol", "same", "2R+1W, 2 preemptions",
           quick={"params": {"readers": 2, "writers": 1, "preempt": 2}}, thorough={"params": {"readers": 3, "writers": 1, "preempt": 2}, "max_paths": 400000, "budget": "900s"}),
         HS(30, "txfile.VerifFileConcurrent", "same with an Observer installed (the application watches FileStats): no data race on the statistics", "1 reader, 1 preemption, observer",
           quick={"params": {"readers": 1, "preempt": 1, "observer": 1}}, thorough={"params": {"readers": 2, "preempt": 1, "observer": 1}, "max_paths": 400000, "budget": "1200s"}),
         HS(200, "txfile.VerifLockProtocol", "same; a reader woken by the end of one commit while the next writer already holds pending and exclusive", "1R+2W, 2 preemptions",
           quick={"params": {"readers": 1, "writers": 2, "preempt": 2}, "max_paths": 400000}, thorough={"params": {"readers": 2, "writers": 2, "preempt": 2}, "max_paths": 400000, "budget": "900s"},
           stress_params={"readers": 6, "writers": 2}, stress_repeat=6000),
         H("txfile.VerifCloseConcurrent", "File.Close while a transaction is open: waits for it, does not block readers the writer's owner starts, no deadlock", "read-only / write transaction, commit / rollback",
           thorough={"params": {"preempt": 1}}),
         H("txfile.VerifLockBalance", "every ending of a transaction (commit, rollback, close, failing commit; read-only close/commit/rollback) leaves the lock idle; Begin/BeginReadonly/Close return", "2 rounds x 7 endings, fault on write/sync at 2 ordinals"),
         HS(100, "txfile.VerifFileConcurrent", "writer vs readers on the real File: no deadlock, Close returns", "1 reader, 1 preemption",
           quick={"params": {"readers": 1, "preempt": 1}}, thorough={"params": {"readers": 1, "preempt": 2}, "max_paths": 400000, "budget": "1200s"}),
         HS(100, "txfile.VerifFileConcurrent", "same", "2 readers, 1 preemption", quick={"params": {"readers": 2, "preempt": 1}, "max_paths": 100000},
           thorough={"params": {"readers": 2, "preempt": 1}, "max_paths": 100000}),
     ])

# ------------------------------------------------------------------ C02
prop("C02", bounds=LOCK_BOUNDS + "; sequential shadow lemma: reader open across <= 2 (thorough 3) symbolic writer operations (incl. Flush, Page.Flush, CheckpointWAL, free) and rollback/close",
     outside="more threads / preemptions; Go memory model below sync granularity",
     harnesses=[
         H("txfile.VerifShadow", "a reader's view is unchanged by anything a concurrent write transaction does up to rollback; a reader begun meanwhile sees the committed state", "nops=2, variants plain/WAL",
           quick={"params": {"nops": 2, "pre": 1}}, thorough={"params": {"nops": 3, "pre": 1}, "max_paths": 300000, "budget": "1200s"}),
         H("txfile.VerifShadow", "same with InitMetaArea=4, WALLimit=1", "variant 4", quick={"params": {"nops": 2, "pre": 1, "variant": 4}}, thorough={"params": {"nops": 3, "pre": 1, "variant": 4}, "max_paths": 300000, "budget": "1200s"}),
         HS(100, "txfile.VerifFileConcurrent", "snapshot isolation under a symbolic scheduler: a reader sees a commit completed before it began (or the one in progress), never uncommitted data; its view is stable", "1 reader, 1 preemption",
           quick={"params": {"readers": 1, "preempt": 1}}, thorough={"params": {"readers": 1, "preempt": 2}, "max_paths": 400000, "budget": "1200s"}),
         HS(100, "txfile.VerifFileConcurrent", "same", "2 readers, 1 preemption", quick={"params": {"readers": 2, "preempt": 1}, "max_paths": 100000},
           thorough={"params": {"readers": 2, "preempt": 1}, "max_paths": 100000}),
         HS(200, "txfile.VerifLockProtocol", "exclusive section (header switch) excludes shared sections", "2R+2W, 1 preemption",
           quick={"params": {"readers": 2, "writers": 2, "preempt": 1}}, thorough={"params": {"readers": 2, "writers": 2, "preempt": 2}, "max_paths": 400000, "budget": "900s"}),
         HS(200, "txfile.VerifLockProtocol", "same; a reader woken by the end of one commit while the next writer already holds pending and exclusive", "1R+2W, 2 preemptions",
           quick={"params": {"readers": 1, "writers": 2, "preempt": 2}, "max_paths": 400000}, thorough={"params": {"readers": 2, "writers": 2, "preempt": 2}, "max_paths": 400000, "budget": "900s"},
           stress_params={"readers": 6, "writers": 2}, stress_repeat=6000),
         H("txfile.VerifShadow", "overwrite-log focus: overwrites and explicit (page) flushes only, 4 operations after a committed overwrite: an overwrite page released by the writer is still what readers read", "opset=3 nops=4",
           quick={"params": {"opset": 3, "nops": 4, "pre": 1}}, thorough={"params": {"opset": 3, "nops": 5, "pre": 1}, "max_paths": 400000, "budget": "1200s"}),
     ])

# ------------------------------------------------------------------ pq
PQ_BOUNDS = ("real pq.Queue/Writer/Reader/ACK over the real txfile.File on the simulated disk, page size 1024 (996 event bytes per page), bounded file of 64 pages, default write buffer (5 pages); "
             "event sizes chosen by the solver among the boundary sizes 992 (ends exactly at the page end), 988 (exactly one event header left), 1988 (ends at the end of the 2nd page), 993, 1, 989, 991, 2009 "
             "(quick: the first 3-4), each event written in 1..2 Write calls, symbolic Flush positions, read buffers of 1 / 7 / 996 / 4096 bytes")
PQ_OUT = "other event sizes, more than 2-3 events per scenario, page sizes other than 1024, larger write buffers, queues embedded in an application file (non-standalone delegate)"

CHECKS["C15"]["harnesses"].append(
    H("pq.VerifQueueMisuse", "pq: reader without Begin (InactiveTx), double Begin, ACK too many / on empty queue, every Reader/Writer/ACK call on a closed queue incl. objects handed out after Close", "9 cases x 7 closed-queue cells"))
CHECKS["C15"]["bounds"] += "; pq: queue with 2 flushed events, 16 misuse cells"

prop("C05", bounds=PQ_BOUNDS, outside=PQ_OUT,
     harnesses=[
         H("pq.VerifQueueFIFO", "every flushed event is delivered exactly once, in order, byte-identical; Next sizes; Read never merges events; nothing beyond the last flushed event; counters",
           "2 events x 4 sizes (quick) / 3 events x 4 sizes, 2 events x 8 sizes (thorough)",
           quick={"params": {"events": 2, "nsizes": 4}}, thorough={"params": {"events": 3, "nsizes": 4}, "max_paths": 400000, "budget": "1500s"}),
         H("pq.VerifQueueFIFO", "consumer abandons events (Next after no / partial Read), reaches the tail, more events arrive", "2 events x 2 sizes x 3 read modes (thorough 3 sizes)",
           quick={"params": {"events": 2, "nsizes": 2, "skip": 1}}, thorough={"params": {"events": 2, "nsizes": 3, "skip": 1}, "max_paths": 400000, "budget": "1500s"}),
         H("pq.VerifQueueFIFO", "same, all 8 boundary sizes, reads interleaved with writes", "2 events x 8 sizes", tiers=("thorough",),
           thorough={"params": {"events": 2, "nsizes": 8, "readearly": 1}, "max_paths": 400000, "budget": "1500s"}),
         H("pq.VerifQueueReopen", "close/reopen at a symbolic point keeps order and content", "2 events x 3 sizes", quick={"params": {"events": 2, "nsizes": 3}},
           thorough={"params": {"events": 2, "nsizes": 6}, "max_paths": 400000, "budget": "1500s"}),
         H("pq.VerifQueueChunks", "a multi-page event written in 2-3 large Write calls (3000/2500/996/1992/700 bytes) after a small event: the automatic flush inside Write must not disturb anything", "3 first sizes x 5^2..5^3 chunkings",
           thorough={"params": {"wbuf": 8192}}),
H("pq.VerifQueueFault", "a flush / ACK whose transaction fails (injected write/sync failure, i.e. after the pages were allocated): error, the buffered events are kept and flushed by the retry, nothing lost or duplicated, counters exact",
           "2 sizes x 2 kinds x 3 ordinals x flush/ACK x reopen", quick={"params": {"nsizes": 2}}, thorough={"params": {"nsizes": 4, "faultords": 5}, "max_paths": 400000, "budget": "1500s"}),
         H("pq.VerifQueueFull", "Write / Next failing on a full file and retried after space was freed: the retried event has its own size and bytes, nothing merged or reordered", "3 sizes x 2 ACK steps x 2 cycles x retry"),
         H("pq.VerifPqPosition", "position encoding round trip for every page id < 2^40, offset in [28,1024], event id; id ordering with wrap-around", "full-width symbolic"),
         H("pq.VerifPqBuffer", "writer page buffer step lemma (pq/buffer.go): ReserveHdr/Append/CommitEvent/Pages/Reset against an independent byte-placement reference; "
           "page bytes, EndOff, FirstOff/FirstID/LastID, Avail accounting, header never split, flush range = pages with unflushed committed bytes",
           "64-byte pages, 8 boundary event sizes, symbolic bytes/header/first id, 1-2 Append chunks; 2 events, simulated flush + Reset, optional re-creation of the buffer from the flushed tail page image (NewPageWith/newBuffer(tail)), 1 event (thorough: 2+2)",
           quick={"params": {"events": 2, "events2": 1}}, thorough={"params": {"events": 2, "events2": 2}, "max_paths": 200000, "budget": "900s"}),
         H("pq.VerifPqBuffer", "same lemma with a longer first phase (three events before the simulated flush)",
           "3 events, flush + Reset / tail re-creation (thorough: 1 further event)",
           quick={"params": {"events": 3, "events2": 0}}, thorough={"params": {"events": 3, "events2": 1}, "max_paths": 300000, "budget": "900s"}),
     ])

prop("C06", bounds=PQ_BOUNDS + "; crash at every index of the I/O log of a flush (1-2 events) / ACK(1) / ACK(2) after a committed prefix of 2 events, loss patterns all kept / all lost / one lost / one kept",
     outside=PQ_OUT + "; torn writes (covered for txfile by C01)",
     harnesses=[
         H("pq.VerifQueueCrash", "recovered queue == completed flushes (+ in-progress flush, all or nothing) - completed ACKs (+ in-progress ACK); reading resumes at the first un-ACKed event; queue usable",
           "3 sizes (quick) / 5 sizes (thorough)", quick={"params": {"nsizes": 3}}, thorough={"params": {"nsizes": 5}, "max_paths": 400000, "budget": "1500s"}),
         H("pq.VerifQueueReopen", "clean reopen at a symbolic point: exactly flushed - ACKed events remain, reading resumes at the first un-ACKed event", "2 events x 3 sizes",
           quick={"params": {"events": 2, "nsizes": 3}}, thorough={"params": {"events": 2, "nsizes": 6}, "max_paths": 400000, "budget": "1500s"}),
         H("pq.VerifQueueFault", "a write/sync failure inside the transaction of a flush or an ACK: error, retry succeeds, nothing lost or duplicated, later flushes re-using freed pages do not disturb earlier events, reopen",
           "2 sizes x 2 kinds x 3 ordinals x flush/ACK x reopen", quick={"params": {"nsizes": 2}}, thorough={"params": {"nsizes": 4, "faultords": 5}, "max_paths": 400000, "budget": "1500s"}),
         H("txfile.VerifWriterBigBatch", "durability of large flushes: the data sync covers more than 1024 queued page writes", "1025 / 1525 / 2025 messages"),
         H("pq.VerifQueueFlushTail", "a flush that only rewrites the already assigned tail page (the added event may end exactly at the page end) meets a write/sync failure: error (no panic), retry succeeds, nothing lost or duplicated",
           "4 size pairs x 2 kinds x 3 ordinals x reopen"),
     ])

prop("C12", bounds="bounded file of 64 pages, events of 2009 / 993 / 4980 bytes appended until the queue reports an error, drained with ACK steps of 1 or 2, refilled (2 cycles)",
     outside=PQ_OUT + "; the 'unbounded total traffic' clause is argued from the second cycle reaching the first cycle's count (space after a full ACK is independent of history)",
     harnesses=[
         H("pq.VerifQueueFull", "full file: error instead of loss, read+ACK succeed, buffered events flushed later in order, space bound after full ACK, second fill cycle as large as the first", "3 sizes x 2 ACK steps x 2 cycles",
           thorough={"params": {"wbuf": 8192}}),
         H("pq.VerifQueueAckFullFile", "the queue shares the file with other data that uses up every free data and meta page: the writer reports the full file, reading and ACK still succeed (clean-up may use the overflow area), the freed space lets the buffered event be flushed",
           "9 / 13 events of 400 bytes, foreign pages allocated and updated one per transaction until failure"),
         H("pq.VerifQueueFlushTail", "a flush that only rewrites the already assigned tail page (the added event may end exactly at the page end) meets a write/sync failure: error (no panic), retry succeeds, nothing lost or duplicated",
           "4 size pairs x 2 kinds x 3 ordinals x reopen"),
         H("pq.VerifQueueFault", "a flush / ACK whose transaction fails (injected write/sync failure, i.e. after the pages were allocated): error, the buffered events are kept and flushed by the retry, nothing lost or duplicated, counters exact",
           "2 sizes x 2 kinds x 3 ordinals x flush/ACK x reopen", quick={"params": {"nsizes": 2}}, thorough={"params": {"nsizes": 4, "faultords": 5}, "max_paths": 400000, "budget": "1500s"}),
     ])

prop("C17", bounds=PQ_BOUNDS, outside=PQ_OUT,
     harnesses=[
         H("pq.VerifQueueFIFO", "Pending == Active == flushed - ACKed at every quiescent point, Reader.Available == flushed - consumed, Flushed/ACKed callbacks report the exact totals", "2 events x 4 sizes",
           quick={"params": {"events": 2, "nsizes": 4}}, thorough={"params": {"events": 3, "nsizes": 4}, "max_paths": 400000, "budget": "1500s"}),
         H("pq.VerifQueueReopen", "counters after reopen", "2 events x 3 sizes", quick={"params": {"events": 2, "nsizes": 3}}, thorough={"params": {"events": 2, "nsizes": 6}, "max_paths": 400000, "budget": "1500s"}),
         H("pq.VerifQueueFIFO", "Reader.Available when events are abandoned (Next after no / partial Read) and when more events arrive at the tail", "2 events x 2 sizes x 3 read modes",
           quick={"params": {"events": 2, "nsizes": 2, "skip": 1}}, thorough={"params": {"events": 2, "nsizes": 3, "skip": 1}, "max_paths": 400000, "budget": "1500s"}),
         H("pq.VerifQueueFull", "counters on a full file and after draining", "3 sizes"),
         H("pq.VerifQueueChunks", "Flushed callback and counters when Write itself flushes completed events (multi-page event in large chunks)", "3 first sizes x chunkings"),
         H("pq.VerifQueueMisuse", "a rejected ACK (more than pending) leaves Pending / Active unchanged", "11 cases"),
         H("pq.VerifQueueEmptyEvent", "a zero-length event (Next without Write) among ordinary events: Available / Pending / Active stay exact, the following events are delivered", "3 positions of the empty event"),
         H("pq.VerifQueueFault", "a flush / ACK whose transaction fails (injected write/sync failure, i.e. after the pages were allocated): error, the buffered events are kept and flushed by the retry, nothing lost or duplicated, counters exact",
           "2 sizes x 2 kinds x 3 ordinals x flush/ACK x reopen", quick={"params": {"nsizes": 2}}, thorough={"params": {"nsizes": 4, "faultords": 5}, "max_paths": 400000, "budget": "1500s"}),
     ])

prop("C13", bounds=PQ_BOUNDS + "; one producer goroutine (Write, Next, optional Flush per event, final Flush) and one consumer goroutine (Begin, Next, Read, Done, ACK(1) per event, bounded polling) "
            "under a symbolic scheduler: 1 preemption at sync operations, context switches at blocking operations and polling yields, 2 events x 2 sizes (thorough: 3 sizes)",
     outside=PQ_OUT + "; more preemptions; interleavings below the granularity of sync operations (unsynchronised accesses of producer and consumer to shared fields are reported by the happens-before tracker on every explored schedule; page buffers are not tracked byte-wise)",
     harnesses=[
         HS(50, "pq.VerifQueueConcurrent", "consumer receives exactly the produced sequence in order, ACK never fails / never removes unread events or the writer's page, no deadlock, queue consistent afterwards",
            "2 events, 1 preemption", quick={"params": {"events": 2, "preempt": 1, "nsizes": 2}, "max_paths": 200000},
            thorough={"params": {"events": 2, "preempt": 1, "nsizes": 3}, "max_paths": 2000000, "budget": "1700s"}),
         HS(200, "txfile.VerifLockProtocol", "same; a reader woken by the end of one commit while the next writer already holds pending and exclusive", "1R+2W, 2 preemptions",
           quick={"params": {"readers": 1, "writers": 2, "preempt": 2}, "max_paths": 400000}, thorough={"params": {"readers": 2, "writers": 2, "preempt": 2}, "max_paths": 400000, "budget": "900s"},
           stress_params={"readers": 6, "writers": 2}, stress_repeat=6000),
         H("pq.VerifQueueFIFO", "operation-level interleaving of producer and consumer steps incl. abandoned events and events arriving after the consumer reached the tail (sequential)", "2 events x 2 sizes x 3 read modes",
           quick={"params": {"events": 2, "nsizes": 2, "skip": 1}}, thorough={"params": {"events": 2, "nsizes": 3, "skip": 1}, "max_paths": 400000, "budget": "1500s"}),
     ])

prop("C18",
     bounds="sequences of 3 (thorough 4) symbolic steps on one path out of: Open, Open with invalid options, Open with both headers damaged, Open with a failure of the first write / short write / sync / truncate / size / mmap call, "
            "Open when the OS refuses to open the file, Close, a write transaction on the open File (bounded or unbounded file growing by 70 pages; optional write/sync/mmap failure at Commit); plus the FlagWaitLock scenario with two goroutines. Real txfile.Open/File.Close and osfs/lock.go; "
            "the OS below osfs.File is a model: file content = simulated disk per path, flock = one Boolean per lock-file path (TryLock succeeds iff free, Lock blocks while held)",
     outside="advisory flock semantics between processes (the stub's contract), longer sequences; natively the same sequences run on real files with the real flock, except injected I/O failures",
     stubs=["osfs.Open, (*osfs.File).{Size,Truncate,MMap,MUnmap,Sync}, (*os.File).{ReadAt,WriteAt,Close,Name} -> harness model of the OS (one simulated disk per path)",
            "gofrs/flock TryLock/Lock/Unlock -> one Boolean per path"],
     harnesses=[
         H("txfile.VerifPathLock", "lock held exactly while a File is open; second Open fails with a lock error; after Close (also of a File whose commit failed) and after every failing Open the lock is free, no descriptor is left open, the path opens again", "3 steps x 7 step kinds",
           thorough={"params": {"steps": 4}, "max_paths": 400000, "budget": "1200s"}, replayable_params={"nofault": 1}, engine_replay=True),
         H("txfile.VerifPathLockWait", "FlagWaitLock: the second Open blocks until Close, then succeeds; a plain Open meanwhile fails", "2 goroutines"),
         H("txfile.VerifPathLockResizeFail", "an Open that changes the maximum size (grow / shrink, with / without preallocation) and meets a write/sync/truncate/size/mmap failure returns; lock free and no descriptor left unless a File was returned; the path can be locked again",
           "2 limits x prealloc x 6 kinds x 3 ordinals", engine_replay=True),
         H("txfile.VerifPathLockClose", "while File.Close waits for an active transaction the path lock stays held and a second Open fails", "read-only / write transaction"),
     ])
