//go:build verif

package txfile

// Simulated disk: an in-memory vfs.File that records every I/O call, can fail
// the n-th call of a kind, and can produce crash images (any subset of the
// writes issued since the last completed sync may be lost).

import "github.com/elastic/go-txfile/internal/vfs"

const (
	memOpWrite = iota + 1
	memOpSync
	memOpTruncate
)

const (
	faultNone       = iota
	faultWrite      // WriteAt fails before any effect
	faultShortWrite // WriteAt writes half of the buffer, then fails
	faultSync
	faultTruncate
	faultSize
	faultMMap
)

type memOp struct {
	kind int
	off  int64
	data []byte // copy of the written bytes
	sz   int64  // truncate size
}

type verifIOErr struct{ what string }

func (e *verifIOErr) Error() string { return "injected I/O failure: " + e.what }

type memFile struct {
	data   []byte // page cache view; cap(data) is the maximum file size
	zeros  []byte
	ops    []memOp
	record bool

	locked  bool
	closed  bool
	mmaps   int
	nlock   int
	nunlock int

	// fault injection: the faultOrd-th call (0-based) of kind faultKind fails,
	// as do the following faultBurst-1 calls of that kind.
	faultKind  int
	faultOrd   int
	faultBurst int
	counts     [8]int
	nfaults    int

	slow            bool  // native runs: every write takes a moment (the background writer lags behind the transaction, as in the engine's sequential mode)
	lastWriteOff    int64 // offset of the most recent WriteAt
	finalSyncFailed bool  // an injected sync failure hit the sync that follows a header write
}

var verifZeros []byte

func newMemFile(capacity int) *memFile {
	if len(verifZeros) < capacity {
		verifZeros = make([]byte, capacity)
	}
	return &memFile{data: make([]byte, 0, capacity), zeros: verifZeros, record: true}
}

func (m *memFile) fail(kind int) bool {
	n := m.counts[kind]
	m.counts[kind] = n + 1
	if m.faultKind != kind {
		return false
	}
	if n >= m.faultOrd && n < m.faultOrd+m.faultBurst {
		m.nfaults++
		return true
	}
	return false
}

func (m *memFile) Close() error { m.closed = true; return nil }
func (m *memFile) Name() string { return "memfile" }

func (m *memFile) Size() (int64, error) {
	if m.fail(faultSize) {
		return 0, &verifIOErr{"size"}
	}
	return int64(len(m.data)), nil
}

func (m *memFile) grow(sz int) bool {
	if sz > cap(m.data) {
		return false
	}
	if old := len(m.data); sz > old {
		m.data = m.data[:sz]
		copy(m.data[old:sz], m.zeros)
	}
	return true
}

func (m *memFile) Truncate(sz int64) error {
	if m.fail(faultTruncate) {
		return &verifIOErr{"truncate"}
	}
	if sz < 0 || int(sz) > cap(m.data) {
		return &verifIOErr{"truncate beyond the simulated disk"}
	}
	if int(sz) <= len(m.data) {
		copy(m.data[sz:], m.zeros) // the cut-off bytes are gone
		m.data = m.data[:sz]
	} else {
		m.grow(int(sz))
	}
	if m.record {
		m.ops = append(m.ops, memOp{kind: memOpTruncate, sz: sz})
	}
	return nil
}

func (m *memFile) WriteAt(p []byte, off int64) (int, error) {
	if m.slow && verifNative() {
		verifNativeSleep()
	}
	short := m.faultKind == faultShortWrite
	kind := faultWrite
	if short {
		kind = faultShortWrite
	}
	failing := m.fail(kind)
	if failing && !short {
		return 0, &verifIOErr{"write"}
	}
	n := len(p)
	if failing {
		n = len(p) / 2
	}
	if off < 0 || !m.grow(int(off)+n) {
		return 0, &verifIOErr{"write beyond the simulated disk"}
	}
	copy(m.data[off:], p[:n])
	m.lastWriteOff = off
	if m.record {
		m.ops = append(m.ops, memOp{kind: memOpWrite, off: off, data: append([]byte(nil), p[:n]...)})
	}
	if failing {
		return n, &verifIOErr{"short write"}
	}
	return n, nil
}

func (m *memFile) ReadAt(p []byte, off int64) (int, error) {
	if off < 0 || int(off) >= len(m.data) {
		return 0, &verifIOErr{"read beyond EOF"}
	}
	n := copy(p, m.data[off:])
	if n < len(p) {
		return n, &verifIOErr{"short read (EOF)"}
	}
	return n, nil
}

func (m *memFile) Lock(exclusive, blocking bool) error {
	m.nlock++
	if m.locked {
		return &verifIOErr{"already locked"}
	}
	m.locked = true
	return nil
}

func (m *memFile) Unlock() error {
	m.nunlock++
	m.locked = false
	return nil
}

func (m *memFile) MMap(sz int) ([]byte, error) {
	if m.fail(faultMMap) {
		return nil, &verifIOErr{"mmap"}
	}
	if sz > cap(m.data) {
		return nil, &verifIOErr{"mmap larger than the simulated disk"}
	}
	m.mmaps++
	return m.data[:sz:sz], nil
}

func (m *memFile) MUnmap(b []byte) error {
	if b == nil {
		return &verifIOErr{"munmap of an empty region (EINVAL)"} // as munmap(2)
	}
	m.mmaps--
	return nil
}

func (m *memFile) Sync(flags vfs.SyncFlag) error {
	if m.fail(faultSync) {
		if m.lastWriteOff < 2*verifPageSize {
			m.finalSyncFailed = true
		}
		return &verifIOErr{"sync"}
	}
	if m.record {
		m.ops = append(m.ops, memOp{kind: memOpSync})
	}
	return nil
}

// image returns the current content (as read back by a fresh open).
func (m *memFile) image() []byte { return append([]byte(nil), m.data...) }

// reopenFile returns a new simulated disk holding img.
func memFileFrom(img []byte, capacity int) *memFile {
	m := newMemFile(capacity)
	m.data = m.data[:len(img)]
	copy(m.data, img)
	return m
}
