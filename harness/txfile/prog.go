//go:build verif

package txfile

// From-init symbolic programs: a fresh file on the simulated disk, a bounded
// number of transactions whose operations, operands and page contents are
// solver variables, and a reference model kept by the harness.

const verifPageSize = 1024

type refPage struct {
	id      PageID
	b0, b1  uint8 // content marker bytes (offsets 0 and 1); b0 may be symbolic
	last    uint8 // byte at offset pageSize-1
	dirty   bool  // written in the running transaction
	flushed bool
	isNew   bool // allocated in the running transaction
	raw     bool // allocated but never written: content unspecified
}

type refModel struct {
	pages []refPage
	root  PageID
}

func (m *refModel) clone() *refModel {
	c := &refModel{root: m.root}
	c.pages = append([]refPage(nil), m.pages...)
	for i := range c.pages {
		c.pages[i].dirty, c.pages[i].flushed, c.pages[i].isNew = false, false, false
	}
	return c
}

func (m *refModel) find(id PageID) int {
	for i := range m.pages {
		if m.pages[i].id == id {
			return i
		}
	}
	return -1
}

func (m *refModel) remove(i int) {
	m.pages = append(m.pages[:i:i], m.pages[i+1:]...)
}

type progCfg struct {
	maxPages  uint   // 0: unbounded
	metaArea  uint32 // InitMetaArea
	prealloc  bool
	walLimit  uint // TxOptions.WALLimit
	overflow  bool
	ops       []int // allowed operation kinds
	firstOps  []int // if set: the operation kinds allowed for the first operation of a transaction
	nOps      int
	endings   []int // allowed endings
	checkInTx bool
	extraSize uint // bytes added to MaxSize (a maximum that is not a multiple of the page size)
	extent    uint // if > 0: page ids may reach this bound (file shrunk below its extent)
	concrete  bool // page contents are concrete sequence numbers instead of solver variables
	capacity  int  // size of the simulated disk in bytes (0: 96 KiB)
	slowDisk  bool // native replay: the disk is slow, so that the background writer lags behind the transaction
}

const (
	opAlloc = iota
	opAllocN
	opOverwrite
	opPartial
	opLoadDirty
	opFree
	opFlush
	opCheckpoint
	opSetRoot
	opFreeNew
	opPageFlush
	opAllocRaw
	opRead
	opAllocRawN // AllocN(2) without writing the pages
	numOps
)

const (
	endCommit = iota
	endRollback
	endClose
	endFailCommit // Commit with an injected I/O failure
)

func (c *progCfg) options() Options {
	o := Options{PageSize: verifPageSize, InitMetaArea: c.metaArea, Prealloc: c.prealloc}
	if c.maxPages > 0 {
		o.MaxSize = uint64(c.maxPages)*verifPageSize + uint64(c.extraSize)
	}
	return o
}

func verifBuf(b0, b1, last uint8) []byte {
	buf := make([]byte, verifPageSize)
	buf[0], buf[1], buf[verifPageSize-1] = b0, b1, last
	return buf
}

type progState struct {
	cfg   *progCfg
	disk  *memFile
	f     *File
	m     *refModel // committed state
	seq   uint8
	nTx   int
	freed []PageID // committed pages freed by the running transaction
}

func verifNewProg(cfg *progCfg) *progState {
	capacity := 96 * 1024
	if cfg.capacity > 0 {
		capacity = cfg.capacity
	}
	disk := newMemFile(capacity)
	disk.slow = cfg.slowDisk
	f, err := openWith(disk, cfg.options())
	verifAssert(err == nil, "creating a file on an empty disk succeeds")
	f.reportOpen()
	return &progState{cfg: cfg, disk: disk, f: f, m: &refModel{}}
}

func (s *progState) nextSeq() uint8 { s.seq++; return s.seq }

// content returns the marker bytes of the next page write.
func (s *progState) content() (uint8, uint8) {
	if s.cfg.concrete {
		q := s.nextSeq()
		return q ^ 0x5a, q
	}
	return verifU8("b"), s.nextSeq()
}

// internalPages reports whether id is used by the committed state's metadata.
func (s *progState) isInternal(id PageID) bool {
	f := s.f
	for _, w := range f.wal.mapping {
		if w == id {
			return true
		}
	}
	for _, reg := range f.wal.metaPages {
		if reg.InRange(id) {
			return true
		}
	}
	for _, reg := range f.allocator.freelistPages {
		if reg.InRange(id) {
			return true
		}
	}
	return false
}

// checkOwnership asserts C04 for a page id returned by Alloc/AllocN.
func (s *progState) checkOwnership(w *refModel, id PageID) {
	verifAssert(id >= 2, "allocated page id is >= 2")
	verifAssert(w.find(id) < 0, "allocated page is not live in the running transaction")
	verifAssert(s.m.find(id) < 0, "allocated page is not live in (or freed from) the committed state")
	verifAssert(!s.isInternal(id), "allocated page is not used by the file's internal metadata")
	if s.cfg.maxPages > 0 && !s.cfg.overflow {
		verifAssert(uint(id) < maxU(s.cfg.maxPages, s.cfg.extent), "allocated page lies within the configured maximum size (or the extent the file had before it was shrunk)")
	}
}

func isKind(err error, k ErrKind) bool {
	e, ok := err.(*Error)
	for ok && e != nil {
		if e.kind == k {
			return true
		}
		e, ok = e.cause.(*Error)
	}
	return false
}

// step runs one symbolic operation inside tx against the working model w.
func (s *progState) step(tx *Tx, w *refModel) {
	cfg := s.cfg
	op := cfg.ops[verifChoose(len(cfg.ops))]
	switch op {
	case opAlloc:
		verifLog("alloc")
		p, err := tx.Alloc()
		if err != nil {
			verifAssert(isKind(err, OutOfMemory), "Alloc fails only with OutOfMemory")
			return
		}
		s.checkOwnership(w, p.ID())
		b0, b1 := s.content()
		verifAssert(p.SetBytes(verifBuf(b0, b1, b1)) == nil, "SetBytes on a fresh page succeeds")
		w.pages = append(w.pages, refPage{id: p.ID(), b0: b0, b1: b1, last: b1, dirty: true, isNew: true})
	case opAllocRaw:
		verifLog("alloc (no write)")
		p, err := tx.Alloc()
		if err != nil {
			verifAssert(isKind(err, OutOfMemory), "Alloc fails only with OutOfMemory")
			return
		}
		s.checkOwnership(w, p.ID())
		w.pages = append(w.pages, refPage{id: p.ID(), isNew: true, raw: true})
	case opAllocRawN:
		n := 2 + verifChoose(2)
		verifLogU64("allocN (no write)", uint64(n))
		ps, err := tx.AllocN(n)
		if err != nil {
			verifAssert(isKind(err, OutOfMemory), "AllocN fails only with OutOfMemory")
			return
		}
		verifAssert(len(ps) == n && ps[0].ID() != ps[1].ID(), "AllocN(n) returns n distinct pages")
		for _, p := range ps {
			s.checkOwnership(w, p.ID())
			w.pages = append(w.pages, refPage{id: p.ID(), isNew: true, raw: true})
		}
	case opAllocN:
		verifLog("allocN(2)")
		ps, err := tx.AllocN(2)
		if err != nil {
			verifAssert(isKind(err, OutOfMemory), "AllocN fails only with OutOfMemory")
			return
		}
		verifAssert(len(ps) == 2, "AllocN(2) returns 2 pages")
		verifAssert(ps[0].ID() != ps[1].ID(), "AllocN returns distinct pages")
		for _, p := range ps {
			s.checkOwnership(w, p.ID())
			b0, b1 := s.content()
			verifAssert(p.SetBytes(verifBuf(b0, b1, b1)) == nil, "SetBytes on a fresh page succeeds")
			w.pages = append(w.pages, refPage{id: p.ID(), b0: b0, b1: b1, last: b1, dirty: true, isNew: true})
		}
	case opOverwrite, opPartial, opLoadDirty:
		if len(w.pages) == 0 {
			return
		}
		i := verifChoose(len(w.pages))
		rp := &w.pages[i]
		p, err := tx.Page(rp.id)
		verifAssert(err == nil, "a live page can be accessed")
		b0, b1 := s.content()
		var werr error
		switch op {
		case opOverwrite:
			verifLog("overwrite")
			werr = p.SetBytes(verifBuf(b0, b1, b1))
			if werr == nil {
				rp.b0, rp.b1, rp.last = b0, b1, b1
				rp.raw = false
			}
		case opPartial:
			verifLog("partial")
			werr = p.SetBytes([]byte{b0, b1})
			if werr == nil {
				rp.b0, rp.b1 = b0, b1
				if rp.raw {
					rp.last, rp.raw = 0, false
				}
			}
		case opLoadDirty:
			verifLog("load+markdirty")
			werr = p.Load()
			if werr == nil {
				buf, berr := p.Bytes()
				verifAssert(berr == nil, "Bytes after Load succeeds")
				verifAssert(len(buf) == verifPageSize, "buffer has page size")
				buf[0], buf[1] = b0, b1
				werr = p.MarkDirty()
				rp.b0, rp.b1 = b0, b1
				if rp.raw {
					rp.last, rp.raw = 0, false
				}
			}
		}
		if rp.flushed {
			verifAssert(isKind(werr, InvalidOp), "writing a flushed page is InvalidOp")
		} else {
			verifAssert(werr == nil, "writing a live page succeeds")
			rp.dirty = true
		}
	case opFree, opFreeNew:
		if len(w.pages) == 0 {
			return
		}
		i := verifChoose(len(w.pages))
		rp := &w.pages[i]
		if op == opFreeNew && !rp.isNew {
			return
		}
		verifLog("free")
		p, err := tx.Page(rp.id)
		verifAssert(err == nil, "a live page can be accessed")
		ferr := p.Free()
		if rp.dirty || rp.flushed {
			verifAssert(isKind(ferr, InvalidOp), "freeing a dirty/flushed page is InvalidOp")
			return
		}
		verifAssert(ferr == nil, "freeing a clean page succeeds")
		if !rp.isNew {
			s.freed = append(s.freed, rp.id)
		}
		w.remove(i)
	case opFlush:
		verifLog("flush")
		err := tx.Flush()
		if err != nil {
			verifAssert(isKind(err, OutOfMemory), "Flush fails only with OutOfMemory")
			return
		}
		for i := range w.pages {
			if w.pages[i].dirty {
				w.pages[i].flushed = true
			}
		}
	case opPageFlush:
		if len(w.pages) == 0 {
			return
		}
		i := verifChoose(len(w.pages))
		rp := &w.pages[i]
		verifLog("page flush")
		p, _ := tx.Page(rp.id)
		err := p.Flush()
		if rp.flushed {
			verifAssert(isKind(err, InvalidOp), "flushing a flushed page is InvalidOp")
			return
		}
		if err != nil {
			verifAssert(isKind(err, OutOfMemory), "Page.Flush fails only with OutOfMemory")
			return
		}
		if rp.dirty {
			rp.flushed = true
		}
	case opRead:
		if len(w.pages) == 0 {
			return
		}
		i := verifChoose(len(w.pages))
		rp := &w.pages[i]
		if rp.raw {
			return
		}
		verifLog("read")
		p, err := tx.Page(rp.id)
		verifAssert(err == nil, "a live page can be accessed")
		buf, berr := p.Bytes()
		verifAssert(berr == nil && len(buf) == verifPageSize, "a live page can be read")
		verifAssert(buf[0] == rp.b0 && buf[1] == rp.b1 && buf[verifPageSize-1] == rp.last, "reading inside a write transaction returns the latest contents")
	case opCheckpoint:
		verifLog("checkpoint")
		verifAssert(tx.CheckpointWAL() == nil, "CheckpointWAL succeeds")
	case opSetRoot:
		if len(w.pages) == 0 {
			return
		}
		i := verifChoose(len(w.pages))
		verifLog("setroot")
		tx.SetRoot(w.pages[i].id)
		w.root = w.pages[i].id
	}
}

// checkView asserts that tx sees exactly model m.
func checkView(tx *Tx, m *refModel, what string) {
	verifAssert(tx.Root() == m.root, what+": root equals the model")
	for i := range m.pages {
		rp := &m.pages[i]
		p, err := tx.Page(rp.id)
		verifAssert(err == nil, what+": live page is accessible")
		if rp.raw {
			continue
		}
		buf, berr := p.Bytes()
		verifAssert(berr == nil, what+": live page is readable")
		verifAssert(len(buf) == verifPageSize, what+": page buffer has page size")
		verifAssert(buf[0] == rp.b0, what+": byte 0 equals the last write")
		verifAssert(buf[1] == rp.b1, what+": byte 1 equals the last write")
		verifAssert(buf[verifPageSize-1] == rp.last, what+": last byte equals the last full write")
	}
}

func (s *progState) checkCommitted(what string) {
	rtx, err := s.f.BeginReadonly()
	verifAssert(err == nil, what+": BeginReadonly succeeds")
	checkView(rtx, s.m, what)
	verifAssert(rtx.Close() == nil, what+": closing the read transaction succeeds")
}

// availNow counts the pages a transaction can still allocate (C11).
func (s *progState) availNow() uint {
	a := &s.f.allocator
	n := a.data.freelist.Avail()
	if end := uint(a.data.endMarker); a.maxPages > 0 && end < a.maxPages {
		n += a.maxPages - end
	}
	return n
}

// checkSpace asserts the C11 counting identity and stats at a quiescent point.
func (s *progState) checkSpace(what string) {
	if s.cfg.maxPages == 0 || s.cfg.overflow {
		return
	}
	a := &s.f.allocator
	live := uint(len(s.m.pages))
	verifAssert(a.maxPages == s.cfg.maxPages, what+": the page limit is the configured maximum size divided by the page size, rounded down")
	verifAssert(s.availNow()+live+a.metaTotal+2 == a.maxPages, what+": allocatable + live + meta area + 2 == maximum")
	verifAssert(uint(a.data.endMarker) <= a.maxPages && uint(a.meta.endMarker) <= a.maxPages, what+": file extent within the maximum")
	sz, _ := s.disk.Size()
	verifAssert(uint64(sz) <= uint64(s.cfg.maxPages)*verifPageSize+uint64(s.cfg.extraSize), what+": file size within the maximum")
}

func (s *progState) checkStats(what string) {
	a := &s.f.allocator
	st := s.f.stats
	verifAssert(st.DataAllocated == uint(len(s.m.pages)), what+": FileStats.DataAllocated equals live pages")
	verifAssert(st.MetaArea == a.metaTotal, what+": FileStats.MetaArea equals the meta area")
	verifAssert(st.MetaAllocated == a.metaTotal-a.meta.freelist.Avail(), what+": FileStats.MetaAllocated equals meta pages in use")
}

// runTx runs one write transaction of cfg.nOps symbolic operations and a
// symbolic ending; returns the ending taken.
func (s *progState) runTx() int {
	s.nTx++
	s.freed = s.freed[:0]
	tx, err := s.f.BeginWith(TxOptions{WALLimit: s.cfg.walLimit, EnableOverflowArea: s.cfg.overflow})
	verifAssert(err == nil, "Begin succeeds")
	w := s.m.clone()
	for k := 0; k < s.cfg.nOps; k++ {
		if k == 0 && s.cfg.firstOps != nil {
			ops := s.cfg.ops
			s.cfg.ops = s.cfg.firstOps
			s.step(tx, w)
			s.cfg.ops = ops
			continue
		}
		s.step(tx, w)
	}
	if s.cfg.checkInTx {
		checkView(tx, w, "inside the transaction")
	}
	end := s.cfg.endings[verifChoose(len(s.cfg.endings))]
	switch end {
	case endCommit:
		verifLog("commit")
		cerr := tx.Commit()
		if cerr != nil {
			verifAssert(isKind(cerr, OutOfMemory), "Commit without I/O faults fails only with OutOfMemory")
			return endRollback
		}
		s.m = w.clone()
	case endFailCommit:
		kinds := []int{faultWrite, faultSync, faultShortWrite}
		kind := kinds[verifChoose(verifParam("failkinds", 2))]
		ord := verifChoose(verifParam("failords", 2))
		s.disk.faultKind, s.disk.faultOrd, s.disk.faultBurst = kind, s.disk.counts[kind]+ord, 1
		verifLogU64("failing commit: fault kind", uint64(kind))
		verifLogU64("fault ordinal", uint64(ord))
		n0 := s.disk.nfaults
		cerr := tx.Commit()
		s.disk.faultKind = faultNone
		if cerr == nil {
			verifAssert(s.disk.nfaults == n0 || kind == faultShortWrite, "Commit succeeds only if no I/O call failed")
			s.m = w.clone()
			return endCommit
		}
		verifAssert(s.disk.nfaults > n0 || isKind(cerr, OutOfMemory), "Commit fails only because of the injected failure (or OutOfMemory)")
	case endRollback:
		verifLog("rollback")
		verifAssert(tx.Rollback() == nil, "Rollback succeeds")
	case endClose:
		verifLog("close")
		verifAssert(tx.Close() == nil, "Close succeeds")
	}
	return end
}

// reopen closes the file and opens the disk image again.
func (s *progState) reopen() {
	verifLog("reopen")
	verifAssert(s.f.Close() == nil, "File.Close succeeds")
	s.disk = memFileFrom(s.disk.image(), cap(s.disk.data))
	s.disk.slow = s.cfg.slowDisk
	f, err := openWith(s.disk, s.cfg.options())
	verifAssert(err == nil, "reopening a cleanly closed file succeeds")
	f.reportOpen()
	s.f = f
}
