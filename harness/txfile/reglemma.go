//go:build verif

package txfile

// G-REG step lemmas: one real free-list operation from an arbitrary (symbolic)
// list satisfying the representation invariant, with a generic page p.

// symList builds a free list of up to n regions with symbolic ids and counts
// constrained only by the invariant: ids >= 2, sorted, pairwise disjoint,
// count >= 1, no id overflow.  Adjacent regions need not be merged.
func symList(name string, n int, maxCount uint32) regionList {
	k := verifChoose(n + 1)
	var l regionList
	var prevEnd PageID = 2
	for i := 0; i < k; i++ {
		id := PageID(verifU64(name + ".id"))
		cnt := verifU32(name + ".count")
		verifAssume(id >= prevEnd)
		verifAssume(uint64(id) < 1<<54)
		verifAssume(cnt >= 1 && cnt <= maxCount)
		l = append(l, region{id: id, count: cnt})
		prevEnd = id + PageID(cnt)
	}
	return l
}

func symFreelist(name string, n int, maxCount uint32) *freelist {
	l := symList(name, n, maxCount)
	return &freelist{regions: l, avail: l.CountPages()}
}

// listHas is p ∈ l as a non-forking term.
func listHas(l regionList, p PageID) bool {
	r := false
	for _, reg := range l {
		r = verifOr(r, verifAnd(reg.id <= p, p < reg.id+PageID(reg.count)))
	}
	return r
}

// listInv asserts the representation invariant of a region list.
func listInv(l regionList, avail uint, what string) {
	var prevEnd PageID = 2
	total := uint(0)
	for _, reg := range l {
		verifAssert(reg.count >= 1, what+": no empty region")
		verifAssert(reg.id >= prevEnd, what+": regions sorted, disjoint, ids >= 2")
		prevEnd = reg.id + PageID(reg.count)
		total += uint(reg.count)
	}
	verifAssert(avail == total, what+": avail == number of pages in the list")
}

func symOrder() *allocOrder {
	if verifChoose(2) == 0 {
		return allocFromBeginning
	}
	return allocFromEnd
}

// VerifFreelistAddRegion: AddRegion of a region disjoint from the list.
func VerifFreelistAddRegion() {
	f := symFreelist("f", verifParam("regions", 3), 1<<31)
	reg := region{id: PageID(verifU64("r.id")), count: verifU32("r.count")}
	verifAssume(reg.id >= 2 && uint64(reg.id) < 1<<54 && reg.count >= 1 && reg.count <= 1<<31)
	for _, x := range f.regions { // disjoint from every region
		verifAssume(reg.id+PageID(reg.count) <= x.id || x.id+PageID(x.count) <= reg.id)
	}
	p := PageID(verifU64("p"))
	pre := listHas(f.regions, p)
	availPre := f.avail
	f.AddRegion(reg)
	listInv(f.regions, f.avail, "after AddRegion")
	verifAssert(f.avail == availPre+uint(reg.count), "AddRegion adds exactly count pages")
	verifAssert(listHas(f.regions, p) == verifOr(pre, verifAnd(reg.id <= p, p < reg.id+PageID(reg.count))), "page is free afterwards iff it was free or is in the added region")
	verifReach("end")
}

// VerifFreelistRemoveRegion: RemoveRegion of an arbitrary region.
func VerifFreelistRemoveRegion() {
	f := symFreelist("f", verifParam("regions", 3), 1<<31)
	reg := region{id: PageID(verifU64("r.id")), count: verifU32("r.count")}
	verifAssume(reg.id >= 2 && uint64(reg.id) < 1<<54 && reg.count >= 1 && reg.count <= 1<<31)
	p := PageID(verifU64("p"))
	pre := listHas(f.regions, p)
	f.RemoveRegion(reg)
	listInv(f.regions, f.avail, "after RemoveRegion")
	inReg := verifAnd(reg.id <= p, p < reg.id+PageID(reg.count))
	verifAssert(listHas(f.regions, p) == verifAnd(pre, !inReg), "page is free afterwards iff it was free and is not in the removed region")
	verifReach("end")
}

// VerifFreelistAllocRegions: AllocRegionsWith in both orders.
func VerifFreelistAllocRegions() {
	f := symFreelist("f", verifParam("regions", 3), 1<<31)
	order := symOrder()
	n := uint(verifU64("n"))
	p := PageID(verifU64("p"))
	pre := listHas(f.regions, p)
	availPre := f.avail
	var got regionList
	f.AllocRegionsWith(order, n, got.Add)
	listInv(f.regions, f.avail, "after AllocRegionsWith")
	gotN := got.CountPages()
	if n == 0 || n > availPre {
		verifAssert(gotN == 0 && f.avail == availPre, "nothing is allocated when n == 0 or n exceeds the available pages")
	} else {
		verifAssert(gotN == n, "exactly n pages are handed out")
		verifAssert(f.avail == availPre-n, "avail decreases by n")
	}
	gp := listHas(got, p)
	verifAssert(!gp || pre, "only free pages are handed out")
	verifAssert(listHas(f.regions, p) == verifAnd(pre, !gp), "a page stays free iff it was free and was not handed out (no page both free and handed out)")
	// regions reported in id order and disjoint
	var prevEnd PageID
	for _, r := range got {
		verifAssert(r.count >= 1 && r.id >= prevEnd, "reported regions are sorted and disjoint")
		prevEnd = r.id + PageID(r.count)
	}
	verifReach("end")
}

// VerifFreelistAllocContinuous: AllocContinuousRegion in both orders.
func VerifFreelistAllocContinuous() {
	f := symFreelist("f", verifParam("regions", 3), 1<<31)
	order := symOrder()
	n := uint(verifU64("n"))
	verifAssume(n >= 1)
	p := PageID(verifU64("p"))
	pre := listHas(f.regions, p)
	availPre := f.avail
	// is there a region with at least n pages?
	fits := false
	for _, r := range f.regions {
		fits = verifOr(fits, uint(r.count) >= n)
	}
	reg := f.AllocContinuousRegion(order, n)
	listInv(f.regions, f.avail, "after AllocContinuousRegion")
	if reg.id == 0 {
		verifAssert(reg.count == 0 && f.avail == availPre, "an empty result leaves the list unchanged")
		verifAssert(listHas(f.regions, p) == pre, "membership unchanged")
	} else {
		verifAssert(fits, "a region is returned only if one with n pages exists")
		verifAssert(uint(reg.count) == n && f.avail == availPre-n, "exactly n continuous pages")
		in := verifAnd(reg.id <= p, p < reg.id+PageID(reg.count))
		verifAssert(!in || pre, "only free pages are handed out")
		verifAssert(listHas(f.regions, p) == verifAnd(pre, !in), "a page stays free iff it was free and was not handed out")
	}
	verifReach("end")
}

// VerifMergeRegionLists: union of two sorted, mutually disjoint lists.
func VerifMergeRegionLists() {
	a := symList("a", verifParam("regions", 2), 1<<30)
	b := symList("b", verifParam("regions", 2), 1<<30)
	for _, x := range a {
		for _, y := range b {
			verifAssume(x.id+PageID(x.count) <= y.id || y.id+PageID(y.count) <= x.id)
		}
	}
	p := PageID(verifU64("p"))
	pre := verifOr(listHas(a, p), listHas(b, p))
	total := a.CountPages() + b.CountPages()
	a0 := append(regionList(nil), a...)
	b0 := append(regionList(nil), b...)
	m := mergeRegionLists(a, b)
	listInv(m, total, "merged list")
	verifAssert(listHas(m, p) == pre, "merged list is the union")
	// the result is a list of its own: the commit code trims it in place (releaseOverflowPages)
	// while the inputs remain the live free lists until the commit has succeeded
	for k := range m {
		m[k].count = 0
		m[k].id = 0
	}
	for k := range a {
		verifAssert(a[k] == a0[k], "changing the merged list does not change the first input list")
	}
	for k := range b {
		verifAssert(b[k] == b0[k], "changing the merged list does not change the second input list")
	}
	verifReach("end")
}

// VerifReleaseOverflow: releaseOverflowPages drops exactly the free pages at the
// end of the file that lie beyond the maximum, and nothing else.
func VerifReleaseOverflow() {
	l := symList("l", verifParam("regions", 3), 1<<31)
	maxPages := uint(verifU64("max"))
	end := PageID(verifU64("end"))
	verifAssume(uint64(end) < 1<<55 && uint64(maxPages) < 1<<55)
	for _, x := range l {
		verifAssume(x.id+PageID(x.count) <= end) // list lies below the end marker
	}
	p := PageID(verifU64("p"))
	pre := listHas(l, p)
	total := l.CountPages()
	out, freed := releaseOverflowPages(l, maxPages, end)
	listInv(out, total-freed, "list after release")
	post := listHas(out, p)
	verifAssert(!post || pre, "release adds no page")
	newEnd := end - PageID(freed)
	removed := verifAnd(pre, !post)
	verifAssert(!removed || (uint(p) >= maxPages && p >= newEnd && p < end), "only pages beyond the maximum, directly below the end marker, are released")
	if maxPages == 0 {
		verifAssert(freed == 0, "nothing is released on an unbounded file")
	}
	// the released pages are exactly [end-freed, end)
	verifAssert(!(pre && p >= newEnd && p < end) || !post, "every free page in the released tail is removed from the list")
	verifReach("end")
}

// VerifTryGrow (G-ALLOC step lemma, C04/C11): metaManager.tryGrow from an
// arbitrary allocator state (symbolic maximum, end markers, one optional free
// data region), with and without the overflow area.  Every page that becomes a
// meta page is taken away from the data allocator: afterwards no page that the
// data allocator can still hand out (free list, or the unused tail between its
// end marker and the maximum) belongs to the meta area.
func VerifTryGrow() {
	maxPages := uint(verifU64("max"))
	end := PageID(verifU64("end"))
	verifAssume(maxPages >= 8 && maxPages < 1<<30)
	verifAssume(end >= 2 && uint(end) <= maxPages)
	a := &allocator{maxPages: maxPages, pageSize: verifPageSize, maxSize: maxPages * verifPageSize}
	a.data.endMarker, a.meta.endMarker = end, end
	dl := symList("d", verifParam("regions", 1), 8)
	for _, r := range dl {
		verifAssume(r.id+PageID(r.count) <= end)
	}
	a.data.freelist.regions, a.data.freelist.avail = dl, dl.CountPages()
	count := uint(1 + verifChoose(verifParam("maxcount", 3)))
	overflow := verifBool("overflow")
	st := a.makeTxAllocState(overflow, 0)
	availBefore := a.DataAllocator().Avail(&st)
	p := PageID(verifU64("p")) // generic page

	ok := a.metaManager().tryGrow(&st, count, overflow)

	if overflow || availBefore >= count {
		verifAssert(ok, "the meta area grows whenever the data area (or the overflow area) can provide the pages")
	}
	if !ok {
		verifReach("end")
		return
	}
	verifAssert(a.metaTotal == count, "the meta area grew by exactly the requested number of pages")
	listInv(a.meta.freelist.regions, count, "meta free list after the growth")
	listInv(a.data.freelist.regions, a.data.freelist.avail, "data free list after the growth")
	verifAssert(a.meta.endMarker >= a.data.endMarker, "the meta end marker is not below the data end marker")
	inMeta := listHas(a.meta.freelist.regions, p)
	inDataFree := listHas(a.data.freelist.regions, p)
	inTail := verifAnd(p >= a.data.endMarker, uint(p) < maxPages)
	verifAssert(!verifAnd(inMeta, inDataFree), "no page is free in both areas")
	verifAssert(!verifAnd(inMeta, inTail), "no meta page lies in the part of the file the data area can still grow into")
	verifAssert(!inMeta || p >= 2, "no header page in the meta area")
	if availBefore >= count {
		verifAssert(a.DataAllocator().Avail(&st) == availBefore-count, "exactly the moved pages left the data allocator")
	} else {
		verifAssert(a.DataAllocator().Avail(&st) == 0, "the data area was drained before the overflow area was used")
	}
	verifReach("end")
}
