//go:build verif

package txfile

// G-META: header validation and selection (C16), FNV step lemmas.

import (
	"encoding"
	"hash/fnv"
)

const (
	corruptNone = iota
	corruptChecksum
	corruptMagic
	corruptVersion
	corruptZero
	numCorrupt
)

// verifHeader fills slot i of buf with a finalized header and then damages it
// according to kind (the damage is a solver variable constrained only to differ
// from the intact value).
func verifHeader(buf []byte, i int, txid uint64, root PageID, kind int) {
	verifHeaderPS(buf, i, txid, root, kind, verifPageSize)
}

func verifHeaderPS(buf []byte, i int, txid uint64, root PageID, kind int, pageSize int) {
	pg := castMetaPage(buf[pageSize*i:])
	pg.Init(0, uint32(pageSize), uint64(64*pageSize))
	pg.txid.Set(txid)
	pg.root.Set(root)
	pg.dataEndMarker.Set(2)
	pg.Finalize()
	switch kind {
	case corruptChecksum:
		c := verifU32("badsum")
		verifAssume(c != pg.checksum.Get())
		pg.checksum.Set(c)
	case corruptMagic:
		c := verifU32("badmagic")
		verifAssume(c != magic)
		pg.magic.Set(c)
	case corruptVersion:
		c := verifU32("badversion")
		verifAssume(c != version)
		pg.version.Set(c)
	case corruptZero:
		for k := 0; k < metaPageHeaderSize; k++ {
			buf[pageSize*i+k] = 0
		}
	}
}

// VerifMetaSelect: readValidMeta returns an error iff both slots are damaged,
// the only intact slot otherwise, the newer one (signed txid difference,
// including wrap-around) when both are intact; it never panics.
func VerifMetaSelect() {
	tx0, tx1 := verifU64("tx0"), verifU64("tx1")
	r0, r1 := PageID(verifU64("root0")), PageID(verifU64("root1"))
	k0, k1 := verifChoose(numCorrupt), verifChoose(numCorrupt)
	buf := make([]byte, 3*verifPageSize)
	verifHeader(buf, 0, tx0, r0, k0)
	verifHeader(buf, 1, tx1, r1, k1)
	disk := memFileFrom(buf, 8*verifPageSize)

	if k0 == corruptNone && k1 == corruptNone && verifKnown("D6", tx0 == tx1) {
		verifLog("both headers intact with equal txid")
	}
	meta, active, err := readValidMeta(disk)

	ok0, ok1 := k0 == corruptNone, k1 == corruptNone
	switch {
	case !ok0 && !ok1:
		verifAssert(err != nil, "both headers damaged: error")
	case ok0 && !ok1:
		verifAssert(err == nil && active == 0, "only header 0 intact: header 0 is selected")
		verifAssert(meta.root.Get() == r0 && meta.txid.Get() == tx0, "selected header is header 0's content")
	case !ok0 && ok1:
		verifAssert(err == nil && active == 1, "only header 1 intact: header 1 is selected")
		verifAssert(meta.root.Get() == r1 && meta.txid.Get() == tx1, "selected header is header 1's content")
	default:
		d := tx0 - tx1
		if d == 0 {
			// two intact headers of the same commit number: any of them, or an error
			verifAssert(err != nil || active == 0 || active == 1, "equal txids: error or one of the headers")
		} else if d < 1<<63 {
			verifAssert(err == nil && active == 0, "both intact: newer header 0 wins (signed difference)")
			verifAssert(meta.root.Get() == r0, "selected content is header 0's")
		} else {
			verifAssert(err == nil && active == 1, "both intact: newer header 1 wins (signed difference)")
			verifAssert(meta.root.Get() == r1, "selected content is header 1's")
		}
	}
	verifReach("end")
}

// VerifMetaSlot1Location: a damaged page-size field in header 0 must not hide
// an intact header 1.
func VerifMetaSlot1Location() {
	// every page size a file can have (powers of two from the minimum up)
	sizes := []int{1024, 4096, 65536, 1 << 17}
	pageSize := sizes[verifChoose(len(sizes))]
	buf := make([]byte, 2*pageSize+verifPageSize)
	verifHeaderPS(buf, 0, 5, 7, corruptNone, pageSize)
	verifHeaderPS(buf, 1, 6, 9, corruptNone, pageSize)
	pg := castMetaPage(buf)
	ps := verifU32("pagesize0")
	verifAssume(ps != uint32(pageSize))
	pg.pageSize.Set(ps)
	// the damage is detectable (a 4-byte change that happens to keep the 32-bit checksum is
	// indistinguishable from an intact header for any checksum; the solver finds such values)
	verifAssume(pg.Validate() != nil)
	disk := memFileFrom(buf, len(buf))
	verifKnown("D11", true)
	meta, active, err := readValidMeta(disk)
	verifAssert(err == nil && active == 1, "header 0 damaged in its page-size field: intact header 1 is selected")
	verifAssert(meta.root.Get() == 9, "selected content is header 1's")
	verifReach("end")
}

// VerifMetaOneByte: damage confined to one byte of magic/version/checksum or of
// the last hashed bytes is rejected by Validate (earlier hashed bytes: by the
// FNV step lemmas and induction over the 80-byte loop).
func VerifMetaOneByte() {
	buf := make([]byte, verifPageSize)
	verifHeader(buf, 0, verifU64("txid"), PageID(verifU64("root")), corruptNone)
	pg := castMetaPage(buf)
	verifAssert(pg.Validate() == nil, "a finalized header validates")
	lo := verifParam("tail", 72)
	k := verifChoose(8 + (metaPageHeaderSize - lo))
	if k >= 8 {
		k = lo + (k - 8)
	}
	nb := verifU8("newbyte")
	verifAssume(nb != buf[k])
	buf[k] = nb
	verifAssert(pg.Validate() != nil, "a header with one changed byte does not validate")
	verifReach("end")
}

func fnvStep(s0, s1, s2, s3, b uint8) uint32 {
	h := fnv.New32a()
	err := h.(encoding.BinaryUnmarshaler).UnmarshalBinary([]byte{'f', 'n', 'v', 2, s0, s1, s2, s3})
	verifAssert(err == nil, "fnv state accepted")
	h.Write([]byte{b})
	return h.Sum32()
}

// VerifFnvStep: one step of the real hash/fnv 32a loop is injective in the
// state (for a fixed byte) and in the byte (for a fixed state).  By induction
// over the 80-byte loop two header contents that differ in exactly one byte
// have different checksums.
func VerifFnvStep() {
	a0, a1, a2, a3 := verifU8("a0"), verifU8("a1"), verifU8("a2"), verifU8("a3")
	c0, c1, c2, c3 := verifU8("c0"), verifU8("c1"), verifU8("c2"), verifU8("c3")
	b, b2 := verifU8("b"), verifU8("b2")
	if verifChoose(2) == 0 {
		verifAssume(a0 != c0 || a1 != c1 || a2 != c2 || a3 != c3)
		verifAssert(fnvStep(a0, a1, a2, a3, b) != fnvStep(c0, c1, c2, c3, b), "different states stay different after hashing the same byte")
	} else {
		verifAssume(b != b2)
		verifAssert(fnvStep(a0, a1, a2, a3, b) != fnvStep(a0, a1, a2, a3, b2), "different bytes give different states")
	}
	verifReach("end")
}

// VerifMetaDamageThenCommit (C16, C01): a real file with two intact headers; the
// header of the older commit is damaged (its txid field holds any 64-bit value,
// so the page does not validate); the file is opened, further transactions
// commit, the file is reopened: the damaged header must never influence which
// state wins.
func VerifMetaDamageThenCommit() {
	cfg := &progCfg{maxPages: 64, concrete: true}
	s := verifNewProg(cfg)
	s.setup(2)
	s.followUp() // second commit: both header slots hold valid headers
	verifAssert(s.f.Close() == nil, "File.Close succeeds")
	img := s.disk.image()
	// locate the older header and damage it
	h0, h1 := castMetaPage(img[0:]), castMetaPage(img[verifPageSize:])
	verifAssert(h0.Validate() == nil && h1.Validate() == nil, "both headers are intact after two commits")
	older := 0
	if int64(h0.txid.Get()-h1.txid.Get()) > 0 {
		older = 1
	}
	newest := castMetaPage(img[(1-older)*verifPageSize:]).txid.Get()
	dm := castMetaPage(img[older*verifPageSize:])
	garbage := verifU64("garbage txid")
	verifAssume(garbage != dm.txid.Get())
	dm.txid.Set(garbage)
	if verifBool("checksum too") {
		dm.checksum.Set(verifU32("garbage checksum"))
	}
	verifAssume(dm.Validate() != nil) // the damage is detectable

	s.disk = memFileFrom(img, cap(s.disk.data))
	f, err := openWith(s.disk, cfg.options())
	verifAssert(err == nil, "opening with one damaged header succeeds")
	f.reportOpen()
	s.f = f
	verifAssert(f.getMetaPage().txid.Get() == newest, "the intact (newest) header is selected")
	s.checkCommitted("after opening with a damaged header")
	n := 1 + verifChoose(2)
	for k := 0; k < n; k++ {
		s.followUp()
		verifAssert(f.getMetaPage().txid.Get() == newest+uint64(k)+1, "commit numbers continue from the intact header")
	}
	s.checkCommitted("after further commits")
	s.reopen()
	verifAssert(s.f.getMetaPage().txid.Get() == newest+uint64(n), "after reopening the newest commit wins")
	s.checkCommitted("after reopening")
	s.assertPartition("after reopening")
	verifReach("end")
}
