//go:build verif

package txfile

// C01: crash images.  The simulated disk logs every WriteAt/Sync/Truncate; a
// crash at log index k keeps everything issued before the last completed sync
// and an arbitrary (solver chosen) subset of the later writes; the write that
// was in flight may be torn.

// startRecording makes the current content the durable base image.
func (m *memFile) startRecording() []byte {
	m.ops = nil
	m.record = true
	return m.image()
}

func applyWrite(img []byte, off int64, data []byte) []byte {
	end := int(off) + len(data)
	if len(img) < end {
		img = append(img, verifZeros[:end-len(img)]...)
	}
	copy(img[off:], data)
	return img
}

// crashImage builds the disk content for a crash after ops[0:k] were issued.
// keep(j) tells whether un-synced write j survives; tear >= 0 truncates the
// last issued write to its first tear bytes.
func crashImage(base []byte, ops []memOp, k int, keep func(j int) bool, tear int) []byte {
	lastSync := -1
	for j := 0; j < k; j++ {
		if ops[j].kind == memOpSync {
			lastSync = j
		}
	}
	img := append([]byte(nil), base...)
	for j := 0; j < k; j++ {
		op := &ops[j]
		switch op.kind {
		case memOpWrite:
			data := op.data
			if j > lastSync {
				if !keep(j) {
					continue
				}
				if j == k-1 && tear >= 0 && tear < len(data) {
					data = data[:tear]
				}
			}
			img = applyWrite(img, op.off, data)
		case memOpTruncate:
			if j > lastSync && !keep(j) {
				continue
			}
			if int(op.sz) <= len(img) {
				img = img[:op.sz]
			} else {
				img = append(img, verifZeros[:int(op.sz)-len(img)]...)
			}
		}
	}
	return img
}

// viewMatches reports (without asserting) whether tx sees exactly model m.
func viewMatches(tx *Tx, m *refModel) bool {
	if tx.Root() != m.root {
		return false
	}
	for i := range m.pages {
		rp := &m.pages[i]
		p, err := tx.Page(rp.id)
		if err != nil {
			return false
		}
		if rp.raw {
			continue
		}
		buf, berr := p.Bytes()
		if berr != nil || len(buf) != verifPageSize {
			return false
		}
		if buf[0] != rp.b0 || buf[1] != rp.b1 || buf[verifPageSize-1] != rp.last {
			if verifParam("debug", 0) == 1 {
				verifLogU64("mismatch page", uint64(rp.id))
				verifLogU64("got b0", uint64(buf[0]))
				verifLogU64("want b0", uint64(rp.b0))
				verifLogU64("got last", uint64(buf[verifPageSize-1]))
				verifLogU64("want last", uint64(rp.last))
			}
			return false
		}
	}
	return true
}

// VerifCrash: a committed prefix state S, one symbolic transaction T, a crash
// at any I/O boundary with a symbolic loss pattern; the real recovery code must
// produce S, or (only once T's Commit had been entered) the complete S'; never
// a mixture; and the recovered file must be fully operational.
func VerifCrash() {
	cfg := &progCfg{maxPages: 64, ops: []int{opAlloc, opOverwrite, opPartial, opFree, opFlush, opCheckpoint, opSetRoot}, endings: []int{endCommit}, concrete: true}
	verifCfgVariant(cfg)
	s := verifNewProg(cfg)
	s.setup(verifParam("setup", 2))
	if n := verifParam("pre", 1); n > 0 {
		cfg.nOps = n
		s.runTx() // creates overwrite pages / free-list metadata in S
	}
	base := s.disk.startRecording()
	before := s.m.clone()
	txidBefore := s.f.getMetaPage().txid.Get()

	// the transaction under test
	cfg.nOps = verifParam("nops", 2)
	cfg.endings = []int{endCommit, endRollback}
	s.nTx++
	s.freed = s.freed[:0]
	tx, err := s.f.Begin()
	verifAssert(err == nil, "Begin succeeds")
	w := s.m.clone()
	for k := 0; k < cfg.nOps; k++ {
		s.step(tx, w)
	}
	commitStart := len(s.disk.ops)
	committed := false
	if cfg.endings[verifChoose(2)] == endCommit {
		verifLog("commit")
		if tx.Commit() == nil {
			committed = true
		}
	} else {
		verifLog("rollback")
		verifAssert(tx.Rollback() == nil, "rollback")
	}
	after := before
	if committed {
		after = w.clone()
	}
	ops := s.disk.ops
	s.disk.record = false
	txidAfter := s.f.getMetaPage().txid.Get()
	verifAssert(committed == (txidAfter != txidBefore), "a successful commit, and only that, advances the header")

	// crash point and loss pattern
	k := verifChoose(len(ops) + 1)
	lastSync := -1
	for j := 0; j < k; j++ {
		if ops[j].kind == memOpSync {
			lastSync = j
		}
	}
	var unsynced []int
	for j := lastSync + 1; j < k; j++ {
		if ops[j].kind != memOpSync {
			unsynced = append(unsynced, j)
		}
	}
	n := len(unsynced)
	// patterns: 0 all kept, 1 all lost, 2+2i only unsynced[i] lost, 3+2i only unsynced[i] kept;
	// with full=1 every subset (n <= 4)
	pattern, mask := 0, 0
	if verifParam("fullmask", 0) == 1 && n <= 4 {
		mask = verifChoose(1 << uint(n))
		pattern = -1
	} else {
		pattern = verifChoose(2 + 2*n)
	}
	keep := func(j int) bool {
		idx := -1
		for i, u := range unsynced {
			if u == j {
				idx = i
			}
		}
		if pattern < 0 {
			return mask&(1<<uint(idx)) != 0
		}
		switch {
		case pattern == 0:
			return true
		case pattern == 1:
			return false
		case pattern%2 == 0:
			return idx != (pattern-2)/2
		default:
			return idx == (pattern-3)/2
		}
	}
	tear := -1
	if k > 0 && ops[k-1].kind == memOpWrite && k-1 > lastSync && keep(k-1) {
		// torn last write: any prefix length out of a few representative ones
		cuts := []int{-1, len(ops[k-1].data) / 2}
		if ops[k-1].off < 2*verifPageSize {
			// header write: tears inside magic/version, the body, and the checksum
			cuts = []int{-1, 0, 6, 40, 80, 83}
		}
		tear = cuts[verifChoose(len(cuts))]
	}
	img := crashImage(base, ops, k, keep, tear)
	verifLogU64("crash at op", uint64(k))
	verifLogU64("ops", uint64(len(ops)))
	verifLogU64("commit started at", uint64(commitStart))

	// recover with the real code
	disk2 := memFileFrom(img, cap(s.disk.data))
	f2, oerr := openWith(disk2, cfg.options())
	verifAssert(oerr == nil, "reopening after a crash succeeds")
	f2.reportOpen()
	rtx, rerr := f2.BeginReadonly()
	verifAssert(rerr == nil, "BeginReadonly on the recovered file")
	// which commit was recovered is told by the header's transaction counter;
	// the view must be exactly that commit's state
	txidRec := f2.getMetaPage().txid.Get()
	verifAssert(txidRec == txidBefore || txidRec == txidAfter, "the recovered header is one of the two commits")
	isBefore := txidRec == txidBefore && viewMatches(rtx, before)
	isAfter := txidRec == txidAfter && viewMatches(rtx, after)
	rtx.Close()
	if k <= commitStart {
		verifAssert(isBefore, "crash before Commit was entered: exactly the last committed state")
	} else if k == len(ops) {
		verifAssert(isAfter, "crash after the transaction ended: exactly its final state")
	} else {
		verifAssert(isBefore || isAfter, "crash during Commit: the old state or the complete new state, never a mixture")
	}
	rec := before
	if txidRec != txidBefore {
		rec = after
	}

	// fully operational: a further transaction commits and does not alter the recovered pages
	s2 := &progState{cfg: cfg, disk: disk2, f: f2, m: rec.clone(), seq: 200}
	s2.assertPartition("recovered state")
	if verifParam("nops2", 0) > 0 {
		cfg.ops = []int{opAlloc, opOverwrite, opFree}
		cfg.nOps = verifParam("nops2", 0)
		cfg.endings = []int{endCommit}
		s2.runTx()
	} else {
		s2.followUp()
	}
	s2.checkCommitted("after a transaction on the recovered file")
	s2.assertPartition("after a transaction on the recovered file")
	s2.reopen()
	s2.checkCommitted("after reopening the recovered file again")
	verifReach("end")
}

// followUp is a fixed transaction: allocate and write a page, overwrite the
// first live page, free the last live page, commit.
func (s *progState) followUp() {
	tx, err := s.f.Begin()
	verifAssert(err == nil, "Begin succeeds")
	w := s.m.clone()
	s.freed = s.freed[:0]
	if n := len(w.pages); n > 1 {
		rp := &w.pages[n-1]
		p, perr := tx.Page(rp.id)
		verifAssert(perr == nil, "a live page can be accessed")
		verifAssert(p.Free() == nil, "freeing a clean page succeeds")
		s.freed = append(s.freed, rp.id)
		w.remove(n - 1)
	}
	p, aerr := tx.Alloc()
	verifAssert(aerr == nil, "Alloc succeeds")
	s.checkOwnership(w, p.ID())
	b0, b1 := s.content()
	verifAssert(p.SetBytes(verifBuf(b0, b1, b1)) == nil, "SetBytes succeeds")
	w.pages = append(w.pages, refPage{id: p.ID(), b0: b0, b1: b1, last: b1})
	if len(w.pages) > 1 {
		rp := &w.pages[0]
		op, perr := tx.Page(rp.id)
		verifAssert(perr == nil, "a live page can be accessed")
		b0, b1 := s.content()
		verifAssert(op.SetBytes(verifBuf(b0, b1, b1)) == nil, "overwriting a live page succeeds")
		rp.b0, rp.b1, rp.last, rp.raw = b0, b1, b1, false
	}
	verifAssert(tx.Commit() == nil, "Commit of the follow-up transaction succeeds")
	s.m = w.clone()
}
