//go:build verif

package txfile

// G-ERR (C15): every public method of Tx and Page x every lifecycle state of
// its receiver: documented error kind, no panic, nothing changes.

const (
	lifeCommitted = iota
	lifeRolledBack
	lifeClosed
	lifeFailedCommit // Commit returned an error (injected I/O failure)
	lifeReadonlyActive
	lifeReadonlyClosed
	numLife
)

const (
	mAlloc = iota
	mAllocN
	mPage
	mRootPage
	mFlush
	mCheckpoint
	mCommit
	mRollback
	mClose
	mSetRoot
	mQueries
	mPageBytes
	mPageLoad
	mPageSetBytes
	mPageMarkDirty
	mPageFree
	mPageFlush
	mPageQueries
	numMethods
)

func kindIn(err error, kinds ...ErrKind) bool {
	for _, k := range kinds {
		if isKind(err, k) {
			return true
		}
	}
	return false
}

// VerifMisuseLifecycle: calls on finished / read-only transactions and on
// their pages.
func VerifMisuseLifecycle() {
	cfg := &progCfg{maxPages: 64}
	s := verifNewProg(cfg)
	s.setup(2)
	id0 := s.m.pages[0].id

	life := verifChoose(numLife)
	readonly := life == lifeReadonlyActive || life == lifeReadonlyClosed
	var tx *Tx
	var err error
	if readonly {
		tx, err = s.f.BeginReadonly()
	} else {
		tx, err = s.f.Begin()
	}
	verifAssert(err == nil, "begin")
	pg, perr := tx.Page(id0)
	verifAssert(perr == nil, "page access in an active transaction")
	switch verifChoose(3) {
	case 1: // the page contents were read while the transaction was active
		_, berr := pg.Bytes()
		verifAssert(berr == nil, "Bytes in an active transaction")
	case 2: // or loaded / written
		if !readonly {
			verifAssert(pg.Load() == nil, "Load in an active write transaction")
		}
	}
	if !readonly && verifBool("touch") {
		np, aerr := tx.Alloc()
		verifAssert(aerr == nil, "alloc")
		verifAssert(np.SetBytes(verifBuf(1, 2, 3)) == nil, "setbytes")
	}
	finished := true
	switch life {
	case lifeCommitted:
		verifAssert(tx.Commit() == nil, "commit")
		s.m = s.m // committed pages of 'touch' are not tracked; only pages of the model are compared
	case lifeRolledBack:
		verifAssert(tx.Rollback() == nil, "rollback")
	case lifeClosed, lifeReadonlyClosed:
		verifAssert(tx.Close() == nil, "close")
	case lifeFailedCommit:
		s.disk.faultKind, s.disk.faultOrd, s.disk.faultBurst = faultSync, s.disk.counts[faultSync], 1
		cerr := tx.Commit()
		verifAssert(cerr != nil, "a commit whose sync fails returns an error")
		s.disk.faultKind = faultNone
	case lifeReadonlyActive:
		finished = false
	}
	before := snapOf(s.f)

	fin := []ErrKind{TxFinished}
	if readonly {
		fin = []ErrKind{TxFinished, TxReadOnly}
	}
	m := verifChoose(numMethods)
	switch m {
	case mAlloc:
		_, e := tx.Alloc()
		verifAssert(e != nil && kindIn(e, fin...), "Alloc on a finished/read-only transaction: TxFinished/TxReadOnly")
	case mAllocN:
		_, e := tx.AllocN(2)
		verifAssert(e != nil && kindIn(e, fin...), "AllocN on a finished/read-only transaction: TxFinished/TxReadOnly")
	case mPage:
		_, e := tx.Page(id0)
		if finished {
			verifAssert(e != nil && kindIn(e, TxFinished), "Page on a finished transaction: TxFinished")
		} else {
			verifAssert(e == nil, "Page on an active read-only transaction succeeds")
		}
	case mRootPage:
		_, e := tx.RootPage()
		if finished {
			verifAssert(e != nil && kindIn(e, TxFinished), "RootPage on a finished transaction: TxFinished")
		} else {
			verifAssert(e == nil, "RootPage on an active read-only transaction succeeds")
		}
	case mFlush:
		e := tx.Flush()
		verifAssert(e != nil && kindIn(e, fin...), "Flush on a finished/read-only transaction: TxFinished/TxReadOnly")
	case mCheckpoint:
		e := tx.CheckpointWAL()
		verifAssert(e != nil && kindIn(e, fin...), "CheckpointWAL on a finished/read-only transaction: TxFinished/TxReadOnly")
	case mCommit:
		e := tx.Commit()
		if finished {
			verifAssert(e != nil && kindIn(e, TxFinished), "Commit on a finished transaction: TxFinished")
		} else {
			verifAssert(e == nil, "Commit of an active read-only transaction closes it")
		}
	case mRollback:
		e := tx.Rollback()
		if finished {
			verifAssert(e != nil && kindIn(e, TxFinished), "Rollback on a finished transaction: TxFinished")
		} else {
			verifAssert(e == nil, "Rollback of an active read-only transaction closes it")
		}
	case mClose:
		verifAssert(tx.Close() == nil, "Close is always allowed")
	case mSetRoot:
		tx.SetRoot(id0 + 1) // no error result; must not panic nor change the committed root
	case mQueries:
		_ = tx.Active()
		_ = tx.Readonly()
		_ = tx.Writable()
		_ = tx.Root()
		verifAssert(tx.Active() == !finished, "Active reports the lifecycle state")
	case mPageBytes:
		_, e := pg.Bytes()
		if finished {
			verifAssert(e != nil && kindIn(e, TxFinished), "Page.Bytes after the transaction finished: TxFinished")
		} else {
			verifAssert(e == nil, "Page.Bytes in an active read-only transaction succeeds")
		}
	case mPageLoad:
		e := pg.Load()
		verifAssert(e != nil && kindIn(e, fin...), "Page.Load on a finished/read-only transaction: TxFinished/TxReadOnly")
	case mPageSetBytes:
		e := pg.SetBytes(verifBuf(9, 9, 9))
		verifAssert(e != nil && kindIn(e, fin...), "Page.SetBytes on a finished/read-only transaction: TxFinished/TxReadOnly")
	case mPageMarkDirty:
		e := pg.MarkDirty()
		verifAssert(e != nil && kindIn(e, fin...), "Page.MarkDirty on a finished/read-only transaction: TxFinished/TxReadOnly")
	case mPageFree:
		e := pg.Free()
		verifAssert(e != nil && kindIn(e, fin...), "Page.Free on a finished/read-only transaction: TxFinished/TxReadOnly")
	case mPageFlush:
		e := pg.Flush()
		verifAssert(e != nil && kindIn(e, fin...), "Page.Flush on a finished/read-only transaction: TxFinished/TxReadOnly")
	case mPageQueries:
		_ = pg.ID()
		_ = pg.Dirty()
		_ = pg.Readonly()
		_ = pg.Writable()
	}
	// nothing changed
	if !finished {
		tx.Close()
	}
	assertSnapEqual(before, snapOf(s.f), "after the invalid call", true)
	s.checkCommitted("after the invalid call")
	// and the file is not blocked: the lock is idle, a write transaction commits, a reader reads
	lk := &s.f.locks
	verifAssert(lk.sharedCount == 0 && !lk.pendingSet, "lock idle after the invalid call")
	s.followUp()
	s.checkCommitted("after a transaction that follows the invalid call")
	verifReach("end")
}

// VerifMisuseActive: invalid operations inside an active write transaction.
func VerifMisuseActive() {
	cfg := &progCfg{maxPages: 64}
	s := verifNewProg(cfg)
	s.setup(2)
	id0, id1 := s.m.pages[0].id, s.m.pages[1].id
	tx, err := s.f.Begin()
	verifAssert(err == nil, "begin")
	before := snapOf(s.f)
	pg, _ := tx.Page(id0)
	switch verifChoose(10) {
	case 9: // a page allocated and freed again in this transaction
		ps, ae := tx.AllocN(2)
		verifAssert(ae == nil && len(ps) == 2, "alloc")
		k := verifChoose(2) // the first (not at the end of the file) or the last one
		fid := ps[k].ID()
		verifAssert(ps[k].Free() == nil, "freeing a fresh page without contents succeeds")
		_, e := tx.Page(fid)
		verifAssert(e != nil && (kindIn(e, InvalidOp) || kindIn(e, InvalidPageID)), "Page of a page freed in this transaction: InvalidOp (or InvalidPageID once the file end moved below it)")
		e2 := ps[k].SetBytes(verifBuf(1, 1, 1))
		verifAssert(e2 != nil && kindIn(e2, InvalidOp), "writing an already freed page: InvalidOp")
	case 0: // out of range ids
		id := PageID(verifU64("id"))
		verifAssume(id < 2 || id >= s.f.allocator.data.endMarker)
		_, e := tx.Page(id)
		verifAssert(e != nil && kindIn(e, InvalidPageID), "Page with an out-of-range id: InvalidPageID")
	case 1: // freed page
		verifAssert(pg.Free() == nil, "free a clean page")
		_, e := tx.Page(id0)
		verifAssert(e != nil && kindIn(e, InvalidOp), "Page of an already freed page: InvalidOp")
		e2 := pg.SetBytes(verifBuf(1, 1, 1))
		verifAssert(e2 != nil && kindIn(e2, InvalidOp), "writing an already freed page: InvalidOp")
		e3 := pg.Free()
		verifAssert(e3 != nil && kindIn(e3, InvalidOp), "freeing an already freed page: InvalidOp")
	case 2: // freeing a dirty page
		verifAssert(pg.SetBytes(verifBuf(1, 1, 1)) == nil, "write")
		e := pg.Free()
		verifAssert(e != nil && kindIn(e, InvalidOp), "freeing a dirty page: InvalidOp")
	case 3: // writing a flushed page
		verifAssert(pg.SetBytes(verifBuf(1, 1, 1)) == nil, "write")
		verifAssert(pg.Flush() == nil, "flush")
		e := pg.SetBytes(verifBuf(2, 2, 2))
		verifAssert(e != nil && kindIn(e, InvalidOp), "writing a flushed page: InvalidOp")
		e2 := pg.MarkDirty()
		verifAssert(e2 != nil && kindIn(e2, InvalidOp), "MarkDirty on a flushed page: InvalidOp")
		e3 := pg.Load()
		verifAssert(e3 != nil && kindIn(e3, InvalidOp), "Load on a flushed page: InvalidOp")
	case 4: // oversize contents
		n := verifPageSize + 1 + verifChoose(2)*verifPageSize
		e := pg.SetBytes(make([]byte, n))
		verifAssert(e != nil && kindIn(e, InvalidParam), "oversize contents: InvalidParam")
		buf, be := pg.Bytes()
		verifAssert(be == nil && buf[0] == s.m.pages[0].b0, "page content unchanged after the rejected write")
	case 5: // reading a fresh page without contents
		np, ae := tx.Alloc()
		verifAssert(ae == nil, "alloc")
		_, e := np.Bytes()
		verifAssert(e != nil && kindIn(e, InvalidOp), "Bytes of a fresh page without contents: InvalidOp")
	case 6: // AllocN with n <= 0
		ps, e := tx.AllocN(-verifChoose(2))
		verifAssert(e == nil && len(ps) == 0, "AllocN(n<=0) returns nothing")
	case 7: // allocation beyond the maximum
		ps, e := tx.AllocN(64)
		verifAssert(ps == nil && e != nil && kindIn(e, OutOfMemory), "allocating more than the file can hold: OutOfMemory")
	case 8: // second page untouched by operations on the first
		verifAssert(pg.SetBytes(verifBuf(1, 1, 1)) == nil, "write")
		p1, _ := tx.Page(id1)
		b, _ := p1.Bytes()
		verifAssert(b[0] == s.m.pages[1].b0, "other page unchanged")
	}
	verifAssert(tx.Rollback() == nil, "rollback after the invalid operation")
	assertSnapEqual(before, snapOf(s.f), "after rollback", true)
	s.checkCommitted("after rollback")
	verifReach("end")
}
