//go:build verif

package txfile

// C08: I/O failures during a transaction.

var verifFaultKinds = []int{faultWrite, faultShortWrite, faultSync, faultTruncate, faultSize, faultMMap}

// VerifFault: a symbolic transaction whose Commit (or Flush) hits an injected
// failure at a symbolic I/O call; error or success but no panic / hang, memory
// keeps the last committed state, a follow-up transaction commits, reopening
// shows that state or the complete state of the attempt whose final sync failed.
func VerifFault() {
	cfg := &progCfg{maxPages: 64, ops: []int{opAlloc, opAllocN, opOverwrite, opFree, opFlush, opCheckpoint}, endings: []int{endCommit}, concrete: true}
	verifCfgVariant(cfg)
	s := verifNewProg(cfg)
	s.setup(verifParam("setup", 2))
	if n := verifParam("pre", 1); n > 0 {
		cfg.nOps = n
		s.runTx()
	}
	before := s.m.clone()
	snapBefore := snapOf(s.f)

	// arm the fault: the ord-th call of the chosen kind from now on fails (burst of 1 or 2)
	kind := verifFaultKinds[verifChoose(len(verifFaultKinds))]
	ord := verifChoose(verifParam("maxord", 5))
	burst := 1 + verifChoose(verifParam("maxburst", 2))
	s.disk.faultKind, s.disk.faultOrd, s.disk.faultBurst = kind, s.disk.counts[kind]+ord, burst
	verifLogU64("fault kind", uint64(kind))
	verifLogU64("fault ordinal", uint64(ord))
	verifLogU64("burst", uint64(burst))

	cfg.nOps = verifParam("nops", 2)
	s.nTx++
	s.freed = s.freed[:0]
	tx, err := s.f.Begin()
	verifAssert(err == nil, "Begin succeeds")
	w := s.m.clone()
	for k := 0; k < cfg.nOps; k++ {
		s.step(tx, w)
	}
	syncsBefore := s.disk.counts[faultSync]
	var cerr error
	rolledBack := false
	if verifParam("rollbacks", 1) == 1 && verifBool("rollback") {
		// the failure hit (if at all) during the operations (Flush); the transaction is given up
		verifPoll() // the background writer processes what Flush has queued (and meets the failure)
		verifAssert(tx.Rollback() == nil, "Rollback succeeds")
		rolledBack = true
		cerr = &verifIOErr{"rolled back"}
	} else {
		cerr = tx.Commit()
	}
	faults := s.disk.nfaults
	s.disk.faultKind = faultNone
	verifLogU64("faults hit", uint64(faults))
	attempt := w.clone() // the state the failed attempt tried to commit
	onlyFinalSync := false
	if cerr == nil {
		verifAssert(faults == 0 || kind == faultShortWrite, "Commit succeeds only if no call failed (a short write without error is continued)")
		s.m = w.clone()
	} else if rolledBack {
		assertSnapEqual(snapBefore, snapOf(s.f), "after the rollback", true)
	} else {
		verifAssert(faults > 0 || isKind(cerr, OutOfMemory), "Commit fails only because of the injected failure (or OutOfMemory)")
		// the last committed state is kept in memory
		if kind == faultSync && faults >= 1 && s.disk.faultOrd == syncsBefore+1 {
			// (with a burst, the syncs issued by the error handling fail as well)
			// only the final sync (after the header write) failed: the header of the attempt may be durable
			onlyFinalSync = true
		}
		if !verifKnown("D10", (kind == faultTruncate || kind == faultMMap || kind == faultSize) && faults > 0 && s.f.metaActive != snapBefore.metaActive) {
			assertSnapEqual(snapBefore, snapOf(s.f), "after the failed commit", !onlyFinalSync)
		}
	}
	s.checkCommitted("after the commit attempt")
	s.assertPartition("after the commit attempt")

	// once the failures stop, new transactions work on the same File
	follow := verifChoose(3)
	switch follow {
	case 0:
		s.followUp()
		s.checkCommitted("after the follow-up transaction")
	case 1:
		// a transaction that flushes and then aborts
		tx2, e2 := s.f.Begin()
		verifAssert(e2 == nil, "Begin succeeds after the failure")
		p, ae := tx2.Alloc()
		verifAssert(ae == nil, "Alloc succeeds after the failure")
		verifAssert(p.SetBytes(verifBuf(0xEE, 0xEE, 0xEE)) == nil, "SetBytes succeeds")
		if len(s.m.pages) > 0 {
			op, _ := tx2.Page(s.m.pages[0].id)
			verifAssert(op.SetBytes(verifBuf(0xEF, 0xEF, 0xEF)) == nil, "overwrite succeeds")
		}
		verifAssert(tx2.Flush() == nil, "Flush succeeds after the failure")
		verifAssert(tx2.Rollback() == nil, "Rollback succeeds after the failure")
		s.checkCommitted("after the aborted follow-up transaction")
	case 2:
	}

	// reopen the disk as it is now
	img := s.disk.image()
	verifAssert(s.f.Close() == nil, "File.Close succeeds")
	if verifKnown("D15", cerr != nil && onlyFinalSync) {
		// (from here on: the header of the attempt is on disk, memory was rolled back, its pages were truncated
		// away or re-used; whatever the reopen shows - or that it fails - is this known finding)
		verifLog("the only failure was the final sync of Commit: the attempt's header is on disk")
	}
	disk2 := memFileFrom(img, cap(s.disk.data))
	f2, oerr := openWith(disk2, cfg.options())
	verifAssert(oerr == nil, "reopening succeeds")
	rtx, rerr := f2.BeginReadonly()
	verifAssert(rerr == nil, "BeginReadonly after reopen")
	isCurrent := viewMatches(rtx, s.m)
	isAttempt := cerr != nil && onlyFinalSync && follow != 0 && viewMatches(rtx, attempt)
	_ = follow
	rtx.Close()
	if !isCurrent && !isAttempt && verifKnown("D15", cerr != nil && onlyFinalSync) {
		verifLog("the only failure was the final sync of Commit: the attempt's header is on disk, but its pages were truncated away by the rollback or re-used by the next transaction")
	}
	verifAssert(isCurrent || isAttempt, "after reopening: the last committed state, or completely the state of the attempt whose only failure was its final sync")
	_ = before
	verifReach("end")
}

// VerifOpenFault: failures of Size/MMap/ReadAt-visible calls/Truncate/WriteAt/
// Sync while creating or opening a file: openWith returns an error (or
// succeeds), never panics, and a later fault-free open of the same disk works.
func VerifOpenFault() {
	cfg := &progCfg{maxPages: 64, concrete: true}
	cfg.prealloc = verifBool("prealloc")
	existing := verifBool("existing")
	disk := newMemFile(96 * 1024)
	var model *refModel = &refModel{}
	if existing {
		f, err := openWith(disk, cfg.options())
		verifAssert(err == nil, "creating a file on an empty disk succeeds")
		s := &progState{cfg: cfg, disk: disk, f: f, m: &refModel{}}
		s.setup(2)
		model = s.m
		verifAssert(f.Close() == nil, "close")
		disk = memFileFrom(disk.image(), 96*1024)
	}
	kind := verifFaultKinds[verifChoose(len(verifFaultKinds))]
	ord := verifChoose(3)
	disk.faultKind, disk.faultOrd, disk.faultBurst = kind, ord, 1
	verifLogU64("fault kind", uint64(kind))
	verifLogU64("fault ordinal", uint64(ord))
	f, err := openWith(disk, cfg.options())
	hit := disk.nfaults
	disk.faultKind = faultNone
	if err != nil {
		verifAssert(hit > 0, "open fails only because of the injected failure")
		verifAssert(f == nil, "no File is returned together with an error")
		verifAssert(disk.mmaps == 0, "a failed open leaves no mapping behind")
	} else {
		verifAssert(hit == 0 || kind == faultShortWrite, "open succeeds only if no call failed")
		verifAssert(f.Close() == nil, "close")
	}
	if !existing && err != nil {
		// creation failed half-way: start again on an empty disk
		disk = newMemFile(96 * 1024)
	} else {
		disk = memFileFrom(disk.image(), 96*1024)
	}
	f2, err2 := openWith(disk, cfg.options())
	verifAssert(err2 == nil, "a later fault-free open succeeds")
	s2 := &progState{cfg: cfg, disk: disk, f: f2, m: model}
	s2.checkCommitted("after the failed open")
	s2.followUp()
	s2.checkCommitted("after a transaction")
	verifReach("end")
}

// VerifFaultGrow (C08): failures of Size / MMap / Truncate inside Commit.  These
// calls happen only when a commit has to re-map the file (an unbounded file that
// grew past its mapping) or to truncate it (a bounded file that was extended by
// the overflow area and whose overflow pages became free again).
func VerifFaultGrow() {
	scen := verifChoose(2)
	cfg := &progCfg{concrete: true, capacity: 192 * 1024}
	if scen == 1 {
		cfg.maxPages, cfg.overflow, cfg.metaArea = 64, true, 2
	}
	s := verifNewProg(cfg)
	s.setup(2)
	if scen == 1 {
		// bounded file, data area full, one transaction pushes overwrite pages into the overflow area
		cfg.overflow = false
		s.allocRaw(int(s.availNow()))
		cfg.overflow = true
		tx0, e0 := s.f.BeginWith(TxOptions{EnableOverflowArea: true})
		verifAssert(e0 == nil, "Begin succeeds")
		w0 := s.m.clone()
		for k := 0; k < 3; k++ {
			rp := &w0.pages[k]
			p, _ := tx0.Page(rp.id)
			b0, b1 := s.content()
			verifAssert(p.SetBytes(verifBuf(b0, b1, b1)) == nil, "overwriting a live page succeeds")
			rp.b0, rp.b1, rp.last, rp.raw = b0, b1, b1, false
		}
		verifAssert(tx0.Commit() == nil, "Commit with the overflow area enabled succeeds on a full file")
		s.m = w0.clone()
		sz0, _ := s.disk.Size()
		verifAssert(sz0 > 64*verifPageSize, "the overflow area extended the file beyond its maximum size")
		// free live pages and checkpoint: the overflow pages become free; the file is cut back by the
		// commit after this one (the extent of the last two transactions is kept)
		tx1, e1 := s.f.BeginWith(TxOptions{EnableOverflowArea: true})
		verifAssert(e1 == nil, "Begin succeeds")
		w1 := s.m.clone()
		verifAssert(tx1.CheckpointWAL() == nil, "CheckpointWAL succeeds")
		for k := 0; k < 6; k++ {
			i := len(w1.pages) - 1
			p, perr := tx1.Page(w1.pages[i].id)
			verifAssert(perr == nil, "a live page can be accessed")
			verifAssert(p.Free() == nil, "freeing a clean page succeeds")
			w1.remove(i)
		}
		verifAssert(tx1.Commit() == nil, "Commit succeeds")
		s.m = w1.clone()
		s.assertPartition("after the overflow pages were released")
	}
	snapBefore := snapOf(s.f)
	mapsBefore := s.disk.mmaps

	kinds := []int{faultMMap, faultSize, faultTruncate, faultNone}
	kind := kinds[verifChoose(len(kinds))]
	ord := verifChoose(2)
	s.disk.faultKind, s.disk.faultOrd, s.disk.faultBurst = kind, s.disk.counts[kind]+ord, 1
	s.disk.nfaults = 0
	verifLogU64("scenario", uint64(scen))
	verifLogU64("fault kind", uint64(kind))
	verifLogU64("fault ordinal", uint64(ord))

	tx, err := s.f.BeginWith(TxOptions{EnableOverflowArea: scen == 1})
	verifAssert(err == nil, "Begin succeeds")
	w := s.m.clone()
	s.freed = s.freed[:0]
	if scen == 0 {
		// grow past the 64 KiB mapping (or stay just below it)
		ns := []int{61, 70, 60}
		n := ns[verifChoose(len(ns))]
		verifLogU64("AllocN", uint64(n))
		ps, aerr := tx.AllocN(n)
		verifAssert(aerr == nil && len(ps) == n, "AllocN on an unbounded file succeeds")
		for k, p := range ps {
			s.checkOwnership(w, p.ID())
			if k == 0 || k == n-1 {
				b0, b1 := s.content()
				verifAssert(p.SetBytes(verifBuf(b0, b1, b1)) == nil, "SetBytes succeeds")
				w.pages = append(w.pages, refPage{id: p.ID(), b0: b0, b1: b1, last: b1})
			} else {
				w.pages = append(w.pages, refPage{id: p.ID(), raw: true})
			}
		}
	} else {
		// any change: this commit truncates the file to its maximum size
		rp := &w.pages[0]
		p, perr := tx.Page(rp.id)
		verifAssert(perr == nil, "a live page can be accessed")
		b0, b1 := s.content()
		verifAssert(p.SetBytes(verifBuf(b0, b1, b1)) == nil, "overwriting a live page succeeds")
		rp.b0, rp.b1, rp.last, rp.raw = b0, b1, b1, false
	}
	truncs, maps := s.disk.counts[faultTruncate], s.disk.counts[faultMMap]
	cerr := tx.Commit()
	faults := s.disk.nfaults
	s.disk.faultKind = faultNone
	verifLogU64("faults hit", uint64(faults))
	verifLogU64("truncate calls in Commit", uint64(s.disk.counts[faultTruncate]-truncs))
	verifLogU64("mmap calls in Commit", uint64(s.disk.counts[faultMMap]-maps))
	if s.disk.counts[faultTruncate] > truncs {
		verifReach("truncate in Commit")
	}
	if s.disk.counts[faultMMap] > maps {
		verifReach("mmap in Commit")
	}
	if cerr == nil {
		verifAssert(faults == 0, "Commit succeeds only if no call failed")
		s.m = w.clone()
	} else {
		verifAssert(faults > 0, "Commit fails only because of the injected failure")
		// the failure hit while the file was re-mapped / truncated, i.e. after the new header was
		// written and synced and after the in-memory state was switched to it
		if !verifKnown("D10", s.f.metaActive != snapBefore.metaActive) {
			assertSnapEqual(snapBefore, snapOf(s.f), "after the failed commit", true)
		}
	}
	if verifParam("nomapcheck", 0) == 0 {
		verifAssert(s.disk.mmaps == mapsBefore, "the File still has exactly one live mapping (reads go through it)")
	}
	s.checkCommitted("after the commit attempt")
	s.assertPartition("after the commit attempt")
	s.followUp()
	s.checkCommitted("after the follow-up transaction")
	s.assertPartition("after the follow-up transaction")
	if verifParam("nomapcheck", 0) == 0 {
		verifAssert(s.disk.mmaps == mapsBefore, "after the follow-up transaction: one live mapping")
	}

	img := s.disk.image()
	verifAssert(s.f.Close() == nil, "File.Close succeeds")
	disk2 := memFileFrom(img, cap(s.disk.data))
	f2, oerr := openWith(disk2, cfg.options())
	verifAssert(oerr == nil, "reopening succeeds")
	rtx, rerr := f2.BeginReadonly()
	verifAssert(rerr == nil, "BeginReadonly after reopen")
	verifAssert(viewMatches(rtx, s.m), "after reopening: the state the running instance showed")
	rtx.Close()
	verifReach("end")
}
