//go:build verif

package txfile

// G-WRITER: the real background writer (write.go) against a recording target.

import "github.com/elastic/go-txfile/internal/vfs"

type recOp struct {
	isSync bool
	id     PageID
	mark   uint8
}

type recTarget struct {
	gate     chan struct{} // native replay only: stalls the first write until everything is scheduled
	log      []recOp
	failAt   int // index of the failing WriteAt/Sync call (-1: none)
	calls    int
	failures int
}

func (t *recTarget) WriteAt(p []byte, off int64) (int, error) {
	if t.gate != nil && p[0] == 255 {
		<-t.gate // the sacrificial first write blocks the writer ("slow disk")
		return len(p), nil
	}
	k := t.calls
	t.calls++
	if k == t.failAt {
		t.failures++
		return 0, &verifIOErr{"write"}
	}
	t.log = append(t.log, recOp{id: PageID(off / verifPageSize), mark: p[0]})
	return len(p), nil
}

func (t *recTarget) Sync(flags vfs.SyncFlag) error {
	k := t.calls
	t.calls++
	if k == t.failAt {
		t.failures++
		return &verifIOErr{"sync"}
	}
	t.log = append(t.log, recOp{isSync: true})
	return nil
}

type schedRec struct {
	id        PageID
	mark      uint8
	syncAfter bool
}

// VerifWriterOrder: for any page ids, any position of sync requests, any
// batching (scheduler decisions) and any tie order of the unstable sort: per
// page the last scheduled write is the last one issued; every write scheduled
// before a sync request is issued before that sync, and none scheduled after it.
func VerifWriterOrder() {
	verifSortTies(true)
	if p := verifParam("preempt", 0); p > 0 {
		verifSched(p)
	}
	n := verifParam("msgs", 3)
	var recs []schedRec
	for k := 0; k < n; k++ {
		id := PageID(verifU8("id"))
		verifAssume(id >= 2 && id < 2+PageID(verifParam("ids", 2)))
		recs = append(recs, schedRec{id: id, mark: uint8(k + 1), syncAfter: verifBool("sync")})
	}
	rounds := 1
	if verifNative() {
		rounds = 24 // try several paddings: Go's sort.Slice is unstable only from 13 elements
	}
	for round := 0; round < rounds; round++ {
		verifWriterRound(recs, round)
	}
	verifReach("end")
}

func verifWriterRound(recs []schedRec, pad int) {
	target := &recTarget{failAt: -1}
	w := &writer{}
	w.Init(target, verifPageSize, SyncDefault)
	done := false
	go func() {
		w.Run()
		done = true
	}()
	ws := newTxWriteSync()
	syncsAt := []int{}
	nSched := 0
	if verifNative() {
		// stall the writer so that all following messages end up in one batch
		target.gate = make(chan struct{})
		stall := make([]byte, verifPageSize)
		stall[0] = 255
		w.Schedule(ws, 1, stall)
		verifNativeSleep()
	}
	// padding writes to unrelated pages before every message (native replay only)
	padID := PageID(100)
	for k := range recs {
		for j := 0; j < pad; j++ {
			pbuf := make([]byte, verifPageSize)
			pbuf[0] = 200
			id := padID
			if j%2 == 1 {
				id = 5000 - padID
			}
			padID++
			w.Schedule(ws, id, pbuf)
			nSched++
		}
		buf := make([]byte, verifPageSize)
		buf[0] = recs[k].mark
		w.Schedule(ws, recs[k].id, buf)
		nSched++
		if recs[k].syncAfter {
			w.Sync(ws, syncDataOnly)
			syncsAt = append(syncsAt, nSched)
		}
	}
	w.Sync(ws, syncDataOnly|syncResetErr)
	if target.gate != nil {
		close(target.gate)
	}
	err := ws.Wait()
	verifAssert(err == nil, "no failure injected: Wait returns nil")
	w.Stop()

	// oracle
	log := target.log
	for k := range recs {
		// last scheduled write for this page?
		last := true
		for j := k + 1; j < len(recs); j++ {
			if recs[j].id == recs[k].id {
				last = false
			}
		}
		if !last {
			continue
		}
		// find the last write issued to that page
		mark := uint8(0)
		for _, op := range log {
			if !op.isSync && op.id == recs[k].id {
				mark = op.mark
			}
		}
		verifAssert(mark == recs[k].mark, "per page the last scheduled write is the last one issued to the target")
	}
	// sync ordering: the s-th sync in the log comes after all writes scheduled before it and before all scheduled after it
	syncIdx := 0
	seen := 0
	for _, op := range log {
		if op.isSync {
			if syncIdx < len(syncsAt) {
				verifAssert(seen == syncsAt[syncIdx], "a sync is issued exactly after the writes scheduled before it")
			}
			syncIdx++
			continue
		}
		seen++
	}
	verifAssert(syncIdx == len(syncsAt)+1, "every requested sync is issued once")
	verifAssert(seen == nSched, "every scheduled write is issued once")
	_ = done
}

// VerifWriterSticky: after the first failing WriteAt/Sync nothing reaches the
// target until a sync carrying the reset flag has been consumed; every waiter
// is released with the error; afterwards the writer works again.
func VerifWriterSticky() {
	if p := verifParam("preempt", 0); p > 0 {
		verifSched(p)
	}
	n := verifParam("msgs", 3)
	target := &recTarget{}
	target.failAt = verifChoose(n + 2) // any write, the data sync, or the final sync
	w := &writer{}
	w.Init(target, verifPageSize, SyncDefault)
	go w.Run()
	ws := newTxWriteSync()
	for k := 0; k < n; k++ {
		buf := make([]byte, verifPageSize)
		buf[0] = uint8(k + 1)
		w.Schedule(ws, PageID(2+k), buf)
		if k == n-2 {
			w.Sync(ws, syncDataOnly)
		}
	}
	w.Sync(ws, syncDataOnly|syncResetErr)
	err := ws.Wait()
	verifAssert(err != nil, "an injected failure is reported to the waiter")
	verifAssert(target.failures == 1, "the failing call happened exactly once")
	verifAssert(target.calls == target.failAt+1, "after the first failure no further WriteAt/Sync reaches the target before the reset")

	// the reset sync has been consumed: a new transaction's writes go through
	ws2 := newTxWriteSync()
	buf := make([]byte, verifPageSize)
	buf[0] = 99
	before := len(target.log)
	w.Schedule(ws2, 7, buf)
	w.Sync(ws2, syncDataOnly|syncResetErr)
	verifAssert(ws2.Wait() == nil, "after the reset the writer works again")
	verifAssert(len(target.log) == before+2 && target.log[before].mark == 99 && target.log[before+1].isSync, "the new write and sync reached the target")
	w.Stop()
	verifReach("end")
}


// VerifWriterBigBatch: more queued writes than the writer's batch buffer
// (1024) ahead of a sync request: the sync must still come after all of them.
func VerifWriterBigBatch() {
	target := &recTarget{failAt: -1}
	w := &writer{}
	w.Init(target, verifPageSize, SyncDefault)
	go w.Run()
	ws := newTxWriteSync()
	n := 1024 + 1 + verifChoose(3)*500
	buf := make([]byte, 8)
	buf[0] = 1
	for k := 0; k < n; k++ {
		w.Schedule(ws, PageID(2+k), buf)
	}
	w.Sync(ws, syncDataOnly)
	hdr := make([]byte, 8)
	hdr[0] = 2
	w.Schedule(ws, 1, hdr)
	w.Sync(ws, syncDataOnly|syncResetErr)
	verifAssert(ws.Wait() == nil, "no failure injected: Wait returns nil")
	w.Stop()
	seen := 0
	syncs := 0
	for _, op := range target.log {
		if op.isSync {
			if syncs == 0 {
				verifAssert(seen == n, "the first sync is issued after every write scheduled before it, however many there are")
			}
			syncs++
			continue
		}
		if op.mark == 2 {
			verifAssert(syncs == 1, "the header write is issued after the data sync")
		}
		seen++
	}
	verifAssert(syncs == 2 && seen == n+1, "every write and every sync is issued once")
	verifReach("end")
}
