//go:build verif

package txfile

// Smoke tests of the engine on the real open/commit path (concrete run first).

func verifOpts(maxPages uint) Options {
	return Options{MaxSize: uint64(maxPages) * 1024, PageSize: 1024}
}

func VerifSmokeCommit() {
	disk := newMemFile(128 * 1024)
	f, err := openWith(disk, verifOpts(64))
	verifAssert(err == nil, "open succeeds")
	f.reportOpen()

	tx, terr := f.Begin()
	verifAssert(terr == nil, "begin")
	p, perr := tx.Alloc()
	verifAssert(perr == nil, "alloc")
	verifAssert(p.ID() >= 2, "page id >= 2")
	buf := make([]byte, 1024)
	b0 := verifU8("b0")
	buf[0] = b0
	buf[1023] = 7
	verifAssert(p.SetBytes(buf) == nil, "setbytes")
	tx.SetRoot(p.ID())
	cerr := tx.Commit()
	verifAssert(cerr == nil, "commit")

	rtx, rerr := f.BeginReadonly()
	verifAssert(rerr == nil, "begin readonly")
	verifAssert(rtx.Root() == p.ID(), "root")
	rp, rperr := rtx.Page(p.ID())
	verifAssert(rperr == nil, "page")
	got, gerr := rp.Bytes()
	verifAssert(gerr == nil, "bytes")
	verifAssert(got[0] == b0 && got[1023] == 7, "content")
	rtx.Close()

	// reopen from the disk image
	img := disk.image()
	verifAssert(f.Close() == nil, "close")
	disk2 := memFileFrom(img, 128*1024)
	f2, err2 := openWith(disk2, verifOpts(64))
	verifAssert(err2 == nil, "reopen")
	rtx2, _ := f2.BeginReadonly()
	verifAssert(rtx2.Root() == p.ID(), "root after reopen")
	rp2, _ := rtx2.Page(p.ID())
	got2, _ := rp2.Bytes()
	verifAssert(got2[0] == b0 && got2[1023] == 7, "content after reopen")
	rtx2.Close()
	verifReach("end")
}
