//go:build verif

package txfile

// G-SER: serialization lemmas for the free list and the overwrite mapping
// (real writeFreeLists/readFreeList, writeWAL/readWAL, pagingWriter, predictor)
// with symbolic entries and a small page size so that lists span several pages.

const serPageSize = 64 // payload 52 bytes: 4-6 region entries or 3 mapping entries per page

func serRegions(name string, n int) regionList {
	var l regionList
	for i := 0; i < n; i++ {
		id := PageID(verifU64(name + ".id"))
		cnt := verifU32(name + ".count")
		verifAssume(uint64(id) < 1<<55 && cnt >= 1)
		l = append(l, region{id: id, count: cnt})
	}
	return l
}

// VerifFreelistSerialize: readFreeList(writeFreeLists(meta, data)) returns the
// same entries with their flags in order, over exactly the allocated pages;
// the page predictor never under-estimates the pages the writer uses.
func VerifFreelistSerialize() {
	nMeta := verifChoose(verifParam("meta", 2) + 1)
	nData := verifChoose(verifParam("data", 4) + 1)
	metaList := serRegions("m", nMeta)
	dataList := serRegions("d", nData)

	pred := prepareFreelistEncPagePrediction(freePageHeaderSize, serPageSize)
	pred.AddRegions(metaList)
	pred.AddRegions(dataList)
	nPages := pred.Estimate()
	extra := uint(verifChoose(2)) // the commit path over-allocates; extra pages must stay linked and empty
	var to regionList
	if nPages+extra > 0 {
		to = regionList{{id: 40, count: uint32(nPages + extra)}}
	}
	pages := map[PageID][]byte{}
	order := []PageID{}
	err := writeFreeLists(to, serPageSize, metaList, dataList, func(id PageID, buf []byte) reason {
		pages[id] = append([]byte(nil), buf...)
		order = append(order, id)
		return nil
	})
	verifAssert(err == nil, "the writer never needs more pages than the predictor computed")
	verifAssert(uint(len(order)) == nPages+extra, "every allocated page is written exactly once")

	var root PageID
	if len(to) > 0 {
		root = to[0].id
	}
	var gotMeta, gotData regionList
	ids, rerr := readFreeList(func(id PageID) []byte { return pages[id] }, root, func(isMeta bool, r region) {
		if isMeta {
			gotMeta = append(gotMeta, r)
		} else {
			gotData = append(gotData, r)
		}
	})
	verifAssert(rerr == nil, "reading back succeeds")
	verifAssert(uint(len(ids)) == nPages+extra, "the page chain links exactly the allocated pages and is terminated")
	for i, id := range ids {
		verifAssert(id == PageID(40+i), "pages are linked in allocation order")
	}
	verifAssert(len(gotMeta) == len(metaList) && len(gotData) == len(dataList), "same number of entries per list")
	for i := range metaList {
		verifAssert(gotMeta[i] == metaList[i], "meta entry round trip")
	}
	for i := range dataList {
		verifAssert(gotData[i] == dataList[i], "data entry round trip")
	}
	verifReach("end")
}

// VerifWALSerialize: readWAL(writeWAL(mapping)) == mapping for ids < 2^56.
func VerifWALSerialize() {
	n := verifChoose(verifParam("entries", 4) + 1)
	mapping := walMapping{}
	var keys, vals []PageID
	for i := 0; i < n; i++ {
		k, v := PageID(verifU64("k")), PageID(verifU64("v"))
		verifAssume(uint64(k) < 1<<56 && uint64(v) < 1<<56)
		for _, o := range keys {
			verifAssume(o != k)
		}
		keys, vals = append(keys, k), append(vals, v)
		mapping[k] = v
	}
	nPages := predictWALMappingPages(mapping, serPageSize)
	var to regionList
	if nPages > 0 {
		to = regionList{{id: 20, count: uint32(nPages)}}
	}
	pages := map[PageID][]byte{}
	err := writeWAL(to, serPageSize, mapping, func(id PageID, buf []byte) reason {
		pages[id] = append([]byte(nil), buf...)
		return nil
	})
	verifAssert(err == nil, "the predicted number of pages suffices")
	var root PageID
	if len(to) > 0 {
		root = to[0].id
	}
	got, ids, rerr := readWAL(func(id PageID) []byte { return pages[id] }, root)
	verifAssert(rerr == nil, "reading back succeeds")
	verifAssert(uint(len(ids)) == nPages, "the page chain links exactly the allocated pages")
	verifAssert(len(got) == n, "same number of mapping entries")
	for i := range keys {
		verifAssert(got[keys[i]] == vals[i], "mapping entry round trip")
	}
	verifReach("end")
}

// VerifCheckTruncate: the truncate target never cuts below what the old or the
// new committed state needs, and never below the configured maximum.
func VerifCheckTruncate() {
	var st txAllocState
	st.data.endMarker = PageID(verifU64("oldDataEnd"))
	st.meta.endMarker = PageID(verifU64("oldMetaEnd"))
	pageSize := uint(1024)
	sz := int64(verifU64("fileSize"))
	newPages := verifU64("newEnd")
	maxSz := int64(verifU64("maxSize"))
	verifAssume(uint64(st.data.endMarker) < 1<<40 && uint64(st.meta.endMarker) < 1<<40 && newPages < 1<<40)
	verifAssume(sz >= 0 && sz < 1<<52 && maxSz >= 0 && maxSz < 1<<52)
	mmapSz := int64(newPages * uint64(pageSize))
	target, truncate := checkTruncate(&st, sz, mmapSz, maxSz, pageSize)
	if truncate {
		verifAssert(maxSz > 0, "unbounded files are never truncated")
		verifAssert(target < sz, "truncation shrinks the file")
		verifAssert(target >= mmapSz, "the new state's extent is kept")
		oldEnd := st.data.endMarker
		if st.meta.endMarker > oldEnd {
			oldEnd = st.meta.endMarker
		}
		verifAssert(target >= int64(uint64(oldEnd)*uint64(pageSize)), "the previous state's extent is kept (the other header may still be needed)")
		verifAssert(target >= maxSz, "a file is never truncated below its configured maximum size")
	}
	verifReach("end")
}
