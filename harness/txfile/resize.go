//go:build verif

package txfile

// C14: changing the maximum size on open.

// allocRaw allocates n pages without writing them and commits.
func (s *progState) allocRaw(n int) {
	tx, err := s.f.Begin()
	verifAssert(err == nil, "Begin succeeds")
	ps, aerr := tx.AllocN(n)
	verifAssert(aerr == nil && len(ps) == n, "AllocN succeeds")
	w := s.m.clone()
	for k, p := range ps {
		s.checkOwnership(w, p.ID())
		if k >= n-3 {
			// the last pages carry data, so that losing the tail of the file is noticed
			b0, b1 := s.content()
			verifAssert(p.SetBytes(verifBuf(b0, b1, b1)) == nil, "SetBytes succeeds")
			w.pages = append(w.pages, refPage{id: p.ID(), b0: b0, b1: b1, last: b1})
			continue
		}
		w.pages = append(w.pages, refPage{id: p.ID(), raw: true})
	}
	verifAssert(tx.Commit() == nil, "Commit succeeds")
	s.m = w.clone()
}

func maxU(a, b uint) uint {
	if a > b {
		return a
	}
	return b
}

// VerifResize: reopen with a larger / smaller / unbounded maximum size.
func VerifResize() {
	const capacity = 260 * 1024
	oldMax := uint(128)
	cfg := &progCfg{maxPages: oldMax, concrete: true}
	if verifParam("metaarea", 0) > 0 {
		cfg.metaArea = uint32(verifParam("metaarea", 0))
	}
	disk := newMemFile(capacity)
	f, err := openWith(disk, cfg.options())
	verifAssert(err == nil, "creating a file on an empty disk succeeds")
	f.reportOpen()
	s := &progState{cfg: cfg, disk: disk, f: f, m: &refModel{}}
	s.setup(2)
	fills := []int{0, 68, 100}
	fill := fills[verifChoose(len(fills))]
	if fill > 0 {
		s.allocRaw(fill)
	}
	if mode := verifChoose(3); mode > 0 && len(s.m.pages) > 16 {
		// mode 1: free pages at the end of the file and one in the middle (free regions border the extent)
		// mode 2: free scattered single pages (no two adjacent)
		tx, _ := s.f.Begin()
		w := s.m.clone()
		var idx []int
		if mode == 1 {
			idx = []int{len(w.pages) - 1, len(w.pages) - 2, 3}
		} else {
			idx = []int{15, 13, 11, 9, 7, 5}
		}
		for _, i := range idx {
			p, _ := tx.Page(w.pages[i].id)
			verifAssert(p.Free() == nil, "free")
			w.remove(i)
		}
		verifAssert(tx.Commit() == nil, "Commit succeeds")
		s.m = w.clone()
	}
	s.checkCommitted("before resizing")
	before := snapOf(s.f)
	availBefore := s.availNow()
	oldExtent := uint(before.dataEnd)
	if uint(before.metaEnd) > oldExtent {
		oldExtent = uint(before.metaEnd)
	}
	szBefore, _ := s.disk.Size()
	verifAssert(s.f.Close() == nil, "File.Close succeeds")

	// reopen with a new limit
	newMaxs := []uint{64, 96, 160, 0}
	newMax := newMaxs[verifChoose(len(newMaxs))]
	prealloc := verifBool("prealloc")
	verifLogU64("fill", uint64(fill))
	verifLogU64("new max pages", uint64(newMax))
	disk2 := memFileFrom(s.disk.image(), capacity)
	unaligned := uint64(0)
	if newMax > 0 && verifBool("unaligned") {
		unaligned = 100 // a limit that is not a multiple of the page size is rounded down
	}
	opts := Options{MaxSize: uint64(newMax)*verifPageSize + unaligned, PageSize: verifPageSize, Flags: FlagUpdMaxSize, Prealloc: prealloc}
	if newMax == 0 {
		opts.Flags |= FlagUnboundMaxSize
	}
	// optionally an I/O failure while the limit is updated (the optional second,
	// page-releasing transaction of a shrink is allowed to fail)
	if fk := verifChoose(6); fk > 0 {
		kind := []int{faultNone, faultWrite, faultSync, faultTruncate, faultMMap, faultSize}[fk]
		disk2.faultKind, disk2.faultOrd, disk2.faultBurst = kind, verifChoose(verifParam("resizefaults", 3)), 1
		verifLogU64("fault kind during the resize", uint64(kind))
		verifLogU64("fault ordinal", uint64(disk2.faultOrd))
	}
	f2, err2 := openWith(disk2, opts)
	disk2.faultKind = faultNone
	if verifKnown("D15", disk2.finalSyncFailed) {
		verifLog("the final sync of a header update failed during the resize (known finding D15)")
	}
	if disk2.nfaults > 0 && err2 != nil {
		// the update failed: the file must still open with its data intact and report one of the two limits
		disk3 := memFileFrom(disk2.image(), capacity)
		f3, err3 := openWith(disk3, Options{PageSize: verifPageSize})
		verifAssert(err3 == nil, "after a failed limit update the file can still be opened")
		verifAssert(f3.allocator.maxPages == newMax || f3.allocator.maxPages == oldMax, "and reports the old or the new limit")
		s.disk, s.f = disk3, f3
		s.checkCommitted("after a failed limit update")
		verifReach("end")
		return
	}
	verifAssert(err2 == nil, "opening with a new maximum size succeeds")
	f2.reportOpen()
	s.disk, s.f = disk2, f2
	cfg.maxPages = newMax
	cfg.extent = oldExtent

	// the returned File accepts read and write transactions without blocking
	s.checkCommitted("after resizing")
	wtx, werr := f2.Begin()
	verifAssert(werr == nil, "a write transaction can begin after resizing")
	verifAssert(wtx.Close() == nil, "and close")

	after := snapOf(f2)
	verifAssert(after.root == before.root, "resizing keeps the root")
	verifAssert(idsEqual(after.walFrom, before.walFrom) && idsEqual(after.walTo, before.walTo), "resizing keeps the overwrite mapping")
	verifAssert(f2.allocator.maxPages == newMax, "the new limit is in effect")
	verifAssert(f2.getMetaPage().maxSize.Get() == uint64(newMax)*verifPageSize, "the active header carries the new limit")
	if newMax > oldMax {
		verifAssert(s.availNow() == availBefore+(newMax-oldMax), "after growing exactly the additional pages become allocatable")
		szAfter, _ := disk2.Size()
		verifAssert(szAfter >= szBefore, "raising the limit never cuts the file")
	}
	if newMax == 0 {
		verifAssert(f2.allocator.maxSize == 0, "unbounded")
	}

	// further history: overwrite pages (grows the meta area), allocate what is possible, free, commit
	limit := maxU(oldExtent, newMax)
	for round := 0; round < verifParam("rounds", 3); round++ {
		tx, berr := f2.Begin()
		verifAssert(berr == nil, "Begin succeeds")
		w := s.m.clone()
		nOver := 10
		if round == 0 {
			nOver = 1 // a small transaction that fits even when the file is (almost) full
		}
		if len(w.pages) < nOver {
			nOver = len(w.pages)
		}
		for k := 0; k < nOver; k++ {
			rp := &w.pages[k]
			p, perr := tx.Page(rp.id)
			verifAssert(perr == nil, "a live page can be accessed")
			b0, b1 := s.content()
			if p.SetBytes(verifBuf(b0, b1, b1)) == nil {
				rp.b0, rp.b1, rp.last, rp.raw = b0, b1, b1, false
			}
		}
		if round == 2 {
			nAlloc := 3
			if newMax > oldMax {
				nAlloc = int(oldMax) - int(oldExtent) + 6 // reach beyond the limit (and the mapping) the file had before it grew
			}
			if ps, aerr := tx.AllocN(nAlloc); aerr == nil {
				for k, p := range ps {
					s.checkOwnership(w, p.ID())
					if k < len(ps)-3 {
						w.pages = append(w.pages, refPage{id: p.ID(), raw: true})
						continue
					}
					b0, b1 := s.content()
					verifAssert(p.SetBytes(verifBuf(b0, b1, b1)) == nil, "SetBytes succeeds")
					w.pages = append(w.pages, refPage{id: p.ID(), b0: b0, b1: b1, last: b1})
				}
			}
		}
		cerr := tx.Commit()
		if cerr == nil {
			s.m = w.clone()
		} else {
			// a shrunk file may have no allocatable page left for overwrite pages:
			// the commit then fails (the error kind is not part of C14) and nothing changes
			verifAssert(s.availNow() < 16, "Commit fails only when (almost) no page can be allocated")
		}
		s.checkCommitted("after a transaction on the resized file")
		if newMax > 0 {
			sz, _ := disk2.Size()
			a := &f2.allocator
			verifAssert(uint(a.data.endMarker) <= limit && uint(a.meta.endMarker) <= limit,
				"after shrinking/growing, the file extent stays within max(previous extent, new limit)")
			verifAssert(uint64(sz) <= uint64(limit)*verifPageSize || sz <= szBefore,
				"the file never grows beyond max(previous extent, new limit)")
		}
	}

	// a second change of the limit (e.g. shrink, then grow again with preallocation)
	if verifParam("second", 1) == 1 && newMax > 0 {
		second := []uint{newMax + 8, newMax + 40}[verifChoose(2)]
		pre2 := verifBool("prealloc2")
		verifLogU64("second max pages", uint64(second))
		verifAssert(f2.Close() == nil, "File.Close succeeds")
		diskB := memFileFrom(disk2.image(), capacity)
		fB, errB := openWith(diskB, Options{MaxSize: uint64(second) * verifPageSize, PageSize: verifPageSize, Flags: FlagUpdMaxSize, Prealloc: pre2})
		verifAssert(errB == nil, "opening with a second new maximum size succeeds")
		fB.reportOpen()
		disk2, f2 = diskB, fB
		s.disk, s.f = diskB, fB
		newMax = second
		cfg.maxPages = second
		s.checkCommitted("after the second resize")
		wtx2, werr2 := f2.Begin()
		verifAssert(werr2 == nil && wtx2.Close() == nil, "a write transaction can begin after the second resize")
	}

	// a later plain open reports the new limit
	verifAssert(f2.Close() == nil, "File.Close succeeds")
	disk3 := memFileFrom(disk2.image(), capacity)
	f3, err3 := openWith(disk3, Options{PageSize: verifPageSize})
	verifAssert(err3 == nil, "plain reopen succeeds")
	verifAssert(f3.allocator.maxPages == newMax && f3.allocator.maxSize == newMax*verifPageSize, "a later plain open reports the new limit")
	s.disk, s.f = disk3, f3
	s.checkCommitted("after the plain reopen")
	verifReach("end")
}

// VerifResizeSpecial (C14): two starting points the main harness does not have.
//  scenario 0: the file was created unbounded and gets a limit (a shrink from "no limit")
//  scenario 1: a bounded file whose overflow area is in use (overwrite pages live
//              beyond the maximum size) gets a larger limit
func VerifResizeSpecial() {
	const capacity = 260 * 1024
	scen := verifChoose(2)
	cfg := &progCfg{concrete: true, capacity: capacity}
	if scen == 1 {
		cfg.maxPages, cfg.metaArea = 64, 2
	}
	s := verifNewProg(cfg)
	s.setup(2)
	if scen == 0 {
		s.allocRaw(20)
	} else {
		s.allocRaw(int(s.availNow()))
		tx0, e0 := s.f.BeginWith(TxOptions{EnableOverflowArea: true})
		verifAssert(e0 == nil, "Begin succeeds")
		w0 := s.m.clone()
		nOver := 1 + verifChoose(3)
		for k := 0; k < nOver; k++ {
			rp := &w0.pages[k]
			p, _ := tx0.Page(rp.id)
			b0, b1 := s.content()
			verifAssert(p.SetBytes(verifBuf(b0, b1, b1)) == nil, "overwriting a live page succeeds")
			rp.b0, rp.b1, rp.last, rp.raw = b0, b1, b1, false
		}
		verifAssert(tx0.Commit() == nil, "Commit with the overflow area enabled succeeds on a full file")
		s.m = w0.clone()
		verifAssume(uint(s.f.allocator.meta.endMarker) > 64) // the overflow area is in use
	}
	s.checkCommitted("before resizing")
	s.assertPartition("before resizing")
	before := snapOf(s.f)
	oldExtent := maxU(uint(before.dataEnd), uint(before.metaEnd))
	availBefore := s.availNow()
	szBefore, _ := s.disk.Size()
	verifAssert(s.f.Close() == nil, "File.Close succeeds")

	newMaxs := []uint{96, 160}
	if scen == 1 {
		newMaxs = []uint{96, 160, 65} // 65: a larger limit that still lies inside the overflow pages in use
	}
	newMax := newMaxs[verifChoose(len(newMaxs))]
	verifLogU64("scenario", uint64(scen))
	verifLogU64("new max pages", uint64(newMax))
	disk2 := memFileFrom(s.disk.image(), capacity)
	f2, err2 := openWith(disk2, Options{MaxSize: uint64(newMax) * verifPageSize, PageSize: verifPageSize, Flags: FlagUpdMaxSize, Prealloc: verifBool("prealloc")})
	verifAssert(err2 == nil, "opening with a new maximum size succeeds")
	f2.reportOpen()
	s.disk, s.f = disk2, f2
	oldMax := cfg.maxPages
	cfg.maxPages, cfg.extent = newMax, oldExtent
	cfg.overflow = false
	s.checkCommitted("after resizing")
	after := snapOf(f2)
	verifAssert(after.root == before.root, "resizing keeps the root")
	verifAssert(idsEqual(after.walFrom, before.walFrom) && idsEqual(after.walTo, before.walTo), "resizing keeps the overwrite mapping")
	verifAssert(f2.allocator.maxPages == newMax, "the new limit is in effect")
	verifAssert(f2.getMetaPage().maxSize.Get() == uint64(newMax)*verifPageSize, "the active header carries the new limit")
	if scen == 1 {
		verifAssert(s.availNow() == availBefore+(newMax-oldMax), "after growing exactly the additional pages become allocatable")
		szAfter, _ := disk2.Size()
		verifAssert(szAfter >= szBefore, "raising the limit never cuts the file")
	}

	// allocate and write pages, overwrite others: nothing of the earlier state may change
	for round := 0; round < 2; round++ {
		tx, berr := f2.Begin()
		verifAssert(berr == nil, "Begin succeeds")
		w := s.m.clone()
		nAlloc := 8
		if av := int(s.availNow()); av < nAlloc {
			nAlloc = av
		}
		ps, aerr := tx.AllocN(nAlloc)
		verifAssert(aerr == nil && len(ps) == nAlloc, "AllocN succeeds on the resized file for pages counted as allocatable")
		for _, p := range ps {
			if verifKnown("D22", scen == 1 && uint(p.ID()) >= oldMax && p.ID() < before.metaEnd) {
				verifLog("a page of the overflow area (beyond the old maximum size, owned by the meta area) is handed out as a data page after the limit was raised")
			}
			s.checkOwnership(w, p.ID())
			b0, b1 := s.content()
			verifAssert(p.SetBytes(verifBuf(b0, b1, b1)) == nil, "SetBytes succeeds")
			w.pages = append(w.pages, refPage{id: p.ID(), b0: b0, b1: b1, last: b1})
		}
		if round == 1 {
			rp := &w.pages[1]
			p, _ := tx.Page(rp.id)
			b0, b1 := s.content()
			verifAssert(p.SetBytes(verifBuf(b0, b1, b1)) == nil, "overwriting a live page succeeds")
			rp.b0, rp.b1, rp.last, rp.raw = b0, b1, b1, false
		}
		verifAssert(tx.Commit() == nil, "Commit succeeds on the resized file")
		s.m = w.clone()
		s.checkCommitted("after a transaction on the resized file")
		s.assertPartition("after a transaction on the resized file")
	}

	verifAssert(f2.Close() == nil, "File.Close succeeds")
	disk3 := memFileFrom(disk2.image(), capacity)
	f3, err3 := openWith(disk3, Options{PageSize: verifPageSize})
	verifAssert(err3 == nil, "plain reopen succeeds")
	verifAssert(f3.allocator.maxPages == newMax && f3.allocator.maxSize == newMax*verifPageSize, "a later plain open reports the new limit")
	s.disk, s.f = disk3, f3
	s.checkCommitted("after the plain reopen")
	verifReach("end")
}
