//go:build verif && !verifnative

package txfile

// Engine-side model of the operating system below osfs.File (C18): the engine
// redirects osfs.Open and the OS-facing methods of *osfs.File to these hooks;
// osfs/lock.go and txfile.Open/Close run unmodified, flock is one Boolean per
// lock-file path.

import (
	"os"

	"github.com/elastic/go-txfile/internal/vfs"
	"github.com/elastic/go-txfile/internal/vfs/osfs"
)

type verifOSFile struct {
	path   string
	disk   *memFile // shared by every descriptor of the same path
	closed bool
}

var verifOS struct {
	disks     map[string]*memFile
	files     map[*os.File]*verifOSFile
	openFail  bool // next osfs.Open fails
	openCalls int
	opened    int // descriptors currently open
}

func verifOSReset() {
	verifOS.disks = map[string]*memFile{}
	verifOS.files = map[*os.File]*verifOSFile{}
	verifOS.openFail = false
	verifOS.opened = 0
}

func verifOsfsOpen(path string, mode os.FileMode) (*osfs.File, error) {
	verifOS.openCalls++
	if verifOS.openFail {
		verifOS.openFail = false
		return nil, &verifIOErr{"open"}
	}
	d := verifOS.disks[path]
	if d == nil {
		d = newMemFile(192 * 1024)
		verifOS.disks[path] = d
	}
	f := &osfs.File{File: verifNewOSFile()}
	verifOS.files[f.File] = &verifOSFile{path: path, disk: d}
	verifOS.opened++
	return f, nil
}

func verifNewOSFile() *os.File

func verifOsfsName(fh *os.File) string { return verifOS.files[fh].path }

func verifOsfsClose(fh *os.File) error {
	of := verifOS.files[fh]
	if of.closed {
		return &verifIOErr{"close of a closed descriptor"}
	}
	of.closed = true
	verifOS.opened--
	return nil
}

func verifOsfsSize(f *osfs.File) (int64, error)      { return verifOS.files[f.File].disk.Size() }
func verifOsfsTruncate(f *osfs.File, sz int64) error { return verifOS.files[f.File].disk.Truncate(sz) }
func verifOsfsMMap(f *osfs.File, sz int) ([]byte, error) {
	return verifOS.files[f.File].disk.MMap(sz)
}
func verifOsfsMUnmap(f *osfs.File, b []byte) error { return verifOS.files[f.File].disk.MUnmap(b) }
func verifOsfsSync(f *osfs.File, flags vfs.SyncFlag) error {
	return verifOS.files[f.File].disk.Sync(flags)
}
func verifOsfsReadAt(fh *os.File, p []byte, off int64) (int, error) {
	return verifOS.files[fh].disk.ReadAt(p, off)
}
func verifOsfsWriteAt(fh *os.File, p []byte, off int64) (int, error) {
	return verifOS.files[fh].disk.WriteAt(p, off)
}

const verifPath = "/data/queue.dat"

// VerifPathLock (C18): sequences of open / failing open / close on one path.
func VerifPathLock() {
	verifOSReset()
	opts := Options{MaxSize: 64 * verifPageSize, PageSize: verifPageSize}
	if verifParam("txsteps", 1) == 1 && verifBool("unbounded") {
		opts.MaxSize = 0 // the file can grow past its first mapping
	}
	nKinds := 6
	if verifParam("txsteps", 1) == 1 {
		nKinds = 7
	}
	lockPath := verifPath + ".lock"
	var open *File
	grown := false
	nSteps := verifParam("steps", 3)
	for step := 0; step < nSteps; step++ {
		verifAssert(verifFlockHeld(lockPath) == (open != nil), "the path lock is held exactly while a File is open")
		verifAssert(verifOS.opened == 0 || open != nil, "no descriptor stays open without an open File")
		switch verifChoose(nKinds) {
		case 6: // the open File is used: a write transaction that grows the file, optionally with an I/O failure
			if open != nil {
				d := verifOS.disks[verifPath]
				tx, berr := open.Begin()
				verifAssert(berr == nil, "Begin succeeds on the open File")
				n := 1
				if opts.MaxSize == 0 && !grown {
					n, grown = 70, true // (once: the simulated disk holds 192 KiB)
				}
				if ps, aerr := tx.AllocN(n); aerr == nil {
					_ = ps[0].SetBytes(verifBuf(1, 2, 3))
				}
				if verifParam("nofault", 0) == 0 {
					// (a failing MMap while the grown file is re-mapped leaves the File without a mapping)
					kind := []int{faultNone, faultWrite, faultSync, faultMMap}[verifChoose(4)]
					d.faultKind, d.faultOrd, d.faultBurst = kind, d.counts[kind], 1
				}
				_ = tx.Commit() // success or failure: the File stays open and owns the lock
				d.faultKind = faultNone
			}
		case 0: // plain open
			f, err := Open(verifPath, 0600, opts)
			if open != nil {
				verifAssert(err != nil && f == nil, "a second Open of an open path fails")
				verifAssert(isKindVfs(err), "a second Open fails with a lock error")
			} else {
				verifAssert(err == nil && f != nil, "Open of a closed path succeeds")
				open = f
			}
		case 1: // invalid options
			bad := opts
			bad.PageSize = 1000 // not a power of two
			f, err := Open(verifPath, 0600, bad)
			verifAssert(err != nil && f == nil, "Open with invalid options fails")
		case 2: // both headers damaged
			if open == nil && verifOS.disks[verifPath] != nil && len(verifOS.disks[verifPath].data) >= 2*verifPageSize {
				d := verifOS.disks[verifPath]
				save0, save1 := d.data[0], d.data[verifPageSize]
				d.data[0] ^= 0xff
				d.data[verifPageSize] ^= 0xff
				f, err := Open(verifPath, 0600, opts)
				verifAssert(err != nil && f == nil, "Open with both headers damaged fails")
				d.data[0], d.data[verifPageSize] = save0, save1
			}
		case 3: // I/O failure during initialisation
			if open == nil && verifParam("nofault", 0) == 0 {
				d := verifOS.disks[verifPath]
				if d == nil {
					d = newMemFile(192 * 1024)
					verifOS.disks[verifPath] = d
				}
				kind := verifFaultKinds[verifChoose(len(verifFaultKinds))]
				d.faultKind, d.faultOrd, d.faultBurst = kind, d.counts[kind], 1
				n0 := d.nfaults
				f, err := Open(verifPath, 0600, opts)
				d.faultKind = faultNone
				if d.nfaults > n0 {
					verifAssert(err != nil && f == nil, "Open fails when an I/O call fails during initialisation")
				}
				if err == nil {
					open = f
				} else if !verifValidFile(d) {
					d.data = d.data[:0] // half created file: the application removes it and starts over
				}
			}
		case 4: // the file can not be opened at all
			if open == nil {
				verifOS.openFail = true
				f, err := Open(verifPath, 0600, opts)
				verifAssert(err != nil && f == nil, "Open fails when the OS refuses to open the file")
				verifOS.openFail = false
			}
		case 5: // close
			if open != nil {
				_ = open.Close()
				open = nil
			}
		}
	}
	verifAssert(verifFlockHeld(lockPath) == (open != nil), "the path lock is held exactly while a File is open")
	if open != nil {
		_ = open.Close() // (Close may report an error of an earlier failure; it must still release everything)
	}
	verifAssert(!verifFlockHeld(lockPath), "after Close the path lock is free")
	verifAssert(verifOS.opened == 0, "after Close no descriptor is left open")
	f, err := Open(verifPath, 0600, opts)
	verifAssert(err == nil && f != nil, "after Close (and after any failed Open) the path can be opened again immediately")
	verifAssert(f.Close() == nil, "Close succeeds")
	verifReach("end")
}

// verifValidFile reports whether the simulated file holds a valid header.
func verifValidFile(d *memFile) bool {
	if len(d.data) < 2*verifPageSize {
		return false
	}
	_, _, err := readValidMeta(d)
	return err == nil
}

func isKindVfs(err error) bool {
	// the lock failure is a vfs error of kind ErrLockFailed wrapped into a txfile error
	for err != nil {
		if ve, ok := err.(*vfs.Error); ok {
			return ve.Kind() == vfs.ErrLockFailed
		}
		e, ok := err.(*Error)
		if !ok {
			return false
		}
		err = e.cause
	}
	return false
}

// VerifPathLockWait (C18): with FlagWaitLock a second Open blocks until the
// first File is closed, and then succeeds.
func VerifPathLockWait() {
	verifOSReset()
	opts := Options{MaxSize: 64 * verifPageSize, PageSize: verifPageSize}
	f1, err := Open(verifPath, 0600, opts)
	verifAssert(err == nil, "first Open succeeds")
	closed := false
	finished := false
	var f2 *File
	extra := []Flag{0, FlagUpdMaxSize, FlagUnboundMaxSize | FlagUpdMaxSize}[verifChoose(3)]
	go func() {
		wopts := opts
		wopts.Flags |= FlagWaitLock | extra // the wait flag may be combined with other flags
		f, werr := Open(verifPath, 0600, wopts)
		verifAssert(closed, "Open with the wait flag returns only after the first File was closed")
		verifAssert(werr == nil && f != nil, "and then succeeds")
		f2 = f
		finished = true
	}()
	verifPoll() // let the second Open run until it blocks on the path lock
	verifAssert(!finished, "the second Open is blocked while the first File is open")
	if verifBool("plainopen") {
		_, perr := Open(verifPath, 0600, opts)
		verifAssert(perr != nil, "a plain Open meanwhile fails")
	}
	closed = true
	verifAssert(f1.Close() == nil, "Close succeeds")
	for k := 0; k < 4 && !finished; k++ {
		verifPoll()
	}
	verifAssert(finished && f2 != nil, "the waiting Open completed after Close")
	// the path is open again (by the waiter): a third Open must fail
	f3, err3 := Open(verifPath, 0600, opts)
	verifAssert(err3 != nil && f3 == nil, "while the waiter holds the file, a third Open fails")
	verifAssert(f2.Close() == nil, "Close succeeds")
	verifAssert(!verifFlockHeld(verifPath+".lock"), "the path lock is free at the end")
	f4, err4 := Open(verifPath, 0600, opts)
	verifAssert(err4 == nil && f4 != nil, "and the path can be opened again")
	verifAssert(f4.Close() == nil, "Close succeeds")
	verifReach("end")
}

// VerifPathLockClose (C18): while File.Close is blocked by an active
// transaction the file is still open: another Open must fail; afterwards the
// path can be opened again.
func VerifPathLockClose() {
	verifOSReset()
	opts := Options{MaxSize: 64 * verifPageSize, PageSize: verifPageSize}
	f1, err := Open(verifPath, 0600, opts)
	verifAssert(err == nil, "first Open succeeds")
	var tx *Tx
	if verifBool("readonly") {
		tx, err = f1.BeginReadonly()
	} else {
		tx, err = f1.Begin()
	}
	verifAssert(err == nil, "Begin succeeds")
	closed := false
	go func() {
		verifAssert(f1.Close() == nil, "Close succeeds")
		closed = true
	}()
	verifPoll() // Close runs until it blocks on the active transaction
	verifAssert(!closed, "Close waits for the active transaction")
	verifAssert(verifFlockHeld(verifPath+".lock"), "the path lock is held while Close has not returned")
	f2, err2 := Open(verifPath, 0600, opts)
	verifAssert(err2 != nil && f2 == nil, "while Close has not returned, a second Open of the path fails")
	verifAssert(tx.Close() == nil, "closing the transaction")
	for k := 0; k < 4 && !closed; k++ {
		verifPoll()
	}
	verifAssert(closed, "Close returns once the transaction is closed")
	f3, err3 := Open(verifPath, 0600, opts)
	verifAssert(err3 == nil && f3 != nil, "after Close the path can be opened again")
	verifAssert(f3.Close() == nil, "Close succeeds")
	verifReach("end")
}

// VerifPathLockResizeFail (C18): an Open that changes the maximum size (internal
// transactions, preallocation, re-mapping) and meets an I/O failure: it returns
// (error or success), the lock is free afterwards unless a File was returned,
// no descriptor leaks, the path opens again.
func VerifPathLockResizeFail() {
	verifOSReset()
	opts := Options{MaxSize: 96 * verifPageSize, PageSize: verifPageSize}
	lockPath := verifPath + ".lock"
	f0, err0 := Open(verifPath, 0600, opts)
	verifAssert(err0 == nil, "creating the file succeeds")
	verifAssert(f0.Close() == nil, "Close succeeds")
	d := verifOS.disks[verifPath]
	o := opts
	newMax := []uint64{128, 64}[verifChoose(2)]
	o.MaxSize, o.Flags, o.Prealloc = newMax*verifPageSize, FlagUpdMaxSize, verifBool("prealloc")
	kind := verifFaultKinds[verifChoose(len(verifFaultKinds))]
	d.faultKind, d.faultOrd, d.faultBurst = kind, d.counts[kind]+verifChoose(3), 1
	f, err := Open(verifPath, 0600, o)
	d.faultKind = faultNone
	if err != nil {
		verifAssert(f == nil, "no File is returned together with an error")
		verifAssert(!verifFlockHeld(lockPath), "after a failing Open the path lock is free")
		verifAssert(verifOS.opened == 0, "after a failing Open no descriptor is left open")
	} else {
		verifAssert(verifFlockHeld(lockPath), "the path lock is held while the File is open")
		_ = f.Close()
		verifAssert(!verifFlockHeld(lockPath), "after Close the path lock is free")
	}
	f2, err2 := Open(verifPath, 0600, Options{PageSize: verifPageSize})
	if err2 == nil {
		verifAssert(f2.Close() == nil, "Close succeeds")
	} else {
		// (a file whose limit update went wrong may refuse to open for other reasons; the lock must not be one of them)
		verifAssert(!isKindVfs(err2), "after a failing Open the path can be locked again immediately")
	}
	verifAssert(!verifFlockHeld(lockPath) && verifOS.opened == 0, "nothing is left locked or open")
	verifReach("end")
}
