//go:build verif

package txfile

// G-REG: region encoding and region list lemmas.

// VerifRegionRoundTrip: decodeRegion(encodeRegion(r)) == r for every id < 2^55,
// every count in [1, 2^32), both flag values; the encoded length is the
// predicted one.
func VerifRegionRoundTrip() {
	id := PageID(verifU64("id"))
	count := verifU32("count")
	isMeta := verifBool("meta")
	verifAssume(uint64(id) < 1<<55)
	verifAssume(count >= 1)
	var buf [maxRegionEncSz]byte
	verifSymBytes("junk", buf[:]) // arbitrary previous buffer content
	r := region{id: id, count: count}
	n := encodeRegion(buf[:], isMeta, r)
	verifAssert(n == regionEncodingSize(r), "encoded length equals regionEncodingSize")
	m, got, k := decodeRegion(buf[:])
	verifAssert(k == n, "decoded length equals encoded length")
	verifAssert(m == isMeta, "meta flag round trip")
	verifAssert(got.id == id, "id round trip")
	verifAssert(got.count == count, "count round trip")
	verifReach("end")
}
