//go:build verif

package txfile

// Entry points of the from-init program harnesses.

var verifAllOps = []int{opAlloc, opAllocN, opOverwrite, opPartial, opLoadDirty, opFree, opFlush, opCheckpoint, opSetRoot, opPageFlush}
var verifAllEnds = []int{endCommit, endRollback, endClose}

// setup commits two pages (ids chosen by the allocator) and a root.
func (s *progState) setup(n int) {
	tx, err := s.f.Begin()
	verifAssert(err == nil, "Begin succeeds")
	w := s.m.clone()
	for k := 0; k < n; k++ {
		p, aerr := tx.Alloc()
		verifAssert(aerr == nil, "Alloc on an empty file succeeds")
		s.checkOwnership(w, p.ID())
		b0, b1 := verifU8("b"), s.nextSeq()
		verifAssert(p.SetBytes(verifBuf(b0, b1, b1)) == nil, "SetBytes succeeds")
		w.pages = append(w.pages, refPage{id: p.ID(), b0: b0, b1: b1, last: b1})
	}
	tx.SetRoot(w.pages[0].id)
	w.root = w.pages[0].id
	verifAssert(tx.Commit() == nil, "Commit succeeds")
	s.m = w.clone()
}

// VerifProgStore: sequential model (C03), ownership (C04), abort (C07),
// reopen (C10), space (C11) on a bounded file.
func VerifProgStore() {
	cfg := &progCfg{maxPages: 64, ops: verifAllOps, endings: verifAllEnds, checkInTx: true}
	cfg.metaArea = uint32(verifParam("metaarea", 0))
	cfg.walLimit = uint(verifParam("wallimit", 0))
	s := verifNewProg(cfg)
	s.checkSpace("after create")
	s.setup(verifParam("setup", 2))
	s.checkCommitted("after setup")
	s.checkSpace("after setup")
	s.checkStats("after setup")
	ntx := verifParam("ntx", 2)
	for t := 0; t < ntx; t++ {
		cfg.nOps = verifParam("nops", 2)
		if t > 0 {
			cfg.nOps = verifParam("nops2", 1)
		}
		s.runTx()
		s.checkCommitted("after transaction")
		s.checkSpace("after transaction")
		s.checkStats("after transaction")
	}
	s.reopen()
	s.checkCommitted("after reopen")
	s.checkSpace("after reopen")
	s.checkStats("after reopen")
	verifReach("end")
}
