//go:build verif

package txfile

// Entry points of the from-init program harnesses.

var verifAllOps = []int{opAlloc, opAllocN, opOverwrite, opPartial, opLoadDirty, opFree, opFlush, opCheckpoint, opSetRoot, opPageFlush, opRead}

// operations that matter for the overwrite log (WAL) and its checkpoints
var verifWalOps = []int{opOverwrite, opPartial, opRead, opFlush, opCheckpoint, opFree, opAlloc}
var verifAllEnds = []int{endCommit, endRollback, endClose}

// setup commits two pages (ids chosen by the allocator) and a root.
func (s *progState) setup(n int) {
	tx, err := s.f.Begin()
	verifAssert(err == nil, "Begin succeeds")
	w := s.m.clone()
	for k := 0; k < n; k++ {
		p, aerr := tx.Alloc()
		verifAssert(aerr == nil, "Alloc on an empty file succeeds")
		s.checkOwnership(w, p.ID())
		b0, b1 := s.content()
		verifAssert(p.SetBytes(verifBuf(b0, b1, b1)) == nil, "SetBytes succeeds")
		w.pages = append(w.pages, refPage{id: p.ID(), b0: b0, b1: b1, last: b1})
	}
	tx.SetRoot(w.pages[0].id)
	w.root = w.pages[0].id
	verifAssert(tx.Commit() == nil, "Commit succeeds")
	s.m = w.clone()
}

// VerifProgStore: sequential model (C03), ownership (C04), abort (C07),
// reopen (C10), space (C11) on a bounded file.
func VerifProgStore() {
	cfg := &progCfg{maxPages: 64, ops: verifAllOps, endings: verifAllEnds, checkInTx: true}
	cfg.metaArea = uint32(verifParam("metaarea", 0))
	cfg.walLimit = uint(verifParam("wallimit", 0))
	switch verifParam("walops", 0) {
	case 1:
		cfg.ops = verifWalOps
		cfg.endings = []int{endCommit}
	case 2:
		cfg.ops = []int{opOverwrite, opRead, opFlush}
		cfg.endings = []int{endCommit}
	case 3:
		cfg.ops = []int{opOverwrite, opRead, opFlush, opCheckpoint, opPartial}
		cfg.endings = []int{endCommit}
		cfg.slowDisk = true
	}
	s := verifNewProg(cfg)
	s.checkSpace("after create")
	s.setup(verifParam("setup", 2))
	s.checkCommitted("after setup")
	s.checkSpace("after setup")
	s.checkStats("after setup")
	ntx := verifParam("ntx", 2)
	for t := 0; t < ntx; t++ {
		cfg.nOps = verifParam("nops", 2)
		if t > 0 {
			cfg.nOps = verifParam("nops2", 1)
		}
		s.runTx()
		s.checkCommitted("after transaction")
		s.assertPartition("after transaction")
		s.checkSpace("after transaction")
		s.checkStats("after transaction")
	}
	s.reopen()
	s.checkCommitted("after reopen")
	s.checkSpace("after reopen")
	s.checkStats("after reopen")
	verifReach("end")
}

var verifAllocOps = []int{opAlloc, opAllocRaw, opAllocN, opFree, opFreeNew, opOverwrite, opFlush, opCheckpoint}

func verifCfgVariant(cfg *progCfg) {
	if verifParam("opset", 0) == 2 {
		// churn inside one transaction: a block of fresh pages, then single allocations and frees of fresh pages
		cfg.firstOps = []int{opAllocRawN}
		cfg.ops = []int{opAllocRaw, opFreeNew}
	}
	if verifParam("opset", 0) == 3 {
		// overwrite log only: overwrites and explicit flushes (overwrite pages are taken and released)
		cfg.ops = []int{opOverwrite, opFlush, opPageFlush}
	}
	if verifParam("opset", 0) == 1 {
		// allocation / free only (longer transactions stay affordable)
		cfg.ops = []int{opAllocRaw, opAllocRawN, opFreeNew, opFree}
	}
	switch verifParam("variant", 0) {
	case 1:
		cfg.metaArea = 4
	case 2:
		cfg.overflow = true
	case 3:
		cfg.maxPages = 0 // unbounded
	case 4:
		cfg.metaArea = 4
		cfg.walLimit = 1
	case 5:
		cfg.extraSize = 1000 // MaxSize is not a multiple of the page size
	case 6:
		cfg.metaArea = 1 // the smallest pre-sized meta area
	}
}

// VerifProgAbort (C07, C04): a transaction that ends without a successful
// commit leaves the in-memory state, the stats, the file size and the outcome
// of later allocations exactly as they were at Begin.
func VerifProgAbort() {
	aborts := []int{endRollback, endClose, endFailCommit}
	cfg := &progCfg{maxPages: 64, ops: verifAllocOps, endings: aborts, checkInTx: true}
	verifCfgVariant(cfg)
	s := verifNewProg(cfg)
	s.setup(verifParam("setup", 2))
	if verifParam("pre", 1) > 0 {
		// a committed transaction first, so that free lists / overwrite pages exist
		cfg.nOps = verifParam("pre", 1)
		cfg.endings = []int{endCommit}
		s.runTx()
		cfg.endings = aborts
	}
	before := snapOf(s.f)
	statsBefore := s.f.stats
	szBefore, _ := s.disk.Size()
	s.assertPartition("before the aborted transaction")

	cfg.nOps = verifParam("nops", 2)
	if s.runTx() == endCommit {
		verifReach("end") // the injected failure was not hit: the transaction committed
		return
	}

	assertSnapEqual(before, snapOf(s.f), "after abort", true)
	verifAssert(s.f.stats == statsBefore, "after abort: FileStats unchanged")
	szAfter, _ := s.disk.Size()
	if cfg.maxPages > 0 && !cfg.overflow {
		verifAssert(szAfter <= int64(cfg.maxPages)*verifPageSize, "after abort: file within its maximum size")
	}
	_ = szBefore
	s.checkCommitted("after abort")
	s.checkSpace("after abort")
	s.assertPartition("after abort")

	// a following transaction allocates only unused pages and commits
	cfg.ops = []int{opAlloc, opAllocN}
	cfg.nOps = 2
	cfg.endings = []int{endCommit}
	s.runTx()
	s.checkCommitted("after the follow-up transaction")
	s.assertPartition("after the follow-up transaction")
	s.checkSpace("after the follow-up transaction")
	s.reopen()
	s.checkCommitted("after reopen")
	verifReach("end")
}

// VerifProgOwn (C04, C11): ownership partition, counting identity and stats
// after every commit of symbolic allocation/free/overwrite programs.
func VerifProgOwn() {
	cfg := &progCfg{maxPages: 64, ops: verifAllocOps, endings: verifAllEnds, checkInTx: false}
	verifCfgVariant(cfg)
	s := verifNewProg(cfg)
	s.setup(verifParam("setup", 2))
	s.assertPartition("after setup")
	ntx := verifParam("ntx", 2)
	for t := 0; t < ntx; t++ {
		cfg.nOps = verifParam("nops", 2)
		s.runTx()
		s.checkCommitted("after the transaction")
		s.assertPartition("after the transaction")
		s.checkSpace("after the transaction")
		s.checkStats("after the transaction")
	}
	// capacity probe: exactly the counted pages can be allocated, not one more
	if cfg.maxPages > 0 && !cfg.overflow {
		n := int(s.availNow())
		tx, err := s.f.Begin()
		verifAssert(err == nil, "Begin succeeds")
		ps, aerr := tx.AllocN(n)
		verifAssert(aerr == nil && len(ps) == n, "every page counted as allocatable can be allocated")
		w := s.m.clone()
		for _, p := range ps {
			s.checkOwnership(w, p.ID())
			w.pages = append(w.pages, refPage{id: p.ID(), raw: true})
		}
		_, aerr2 := tx.Alloc()
		verifAssert(aerr2 != nil && isKind(aerr2, OutOfMemory), "and not one page more")
		verifAssert(tx.Rollback() == nil, "Rollback succeeds")
		s.checkSpace("after the capacity probe")
	}
	verifReach("end")
}

// VerifProgReopen (C10): the reopened instance starts in the very state the
// running instance is in; later operations therefore behave identically.
func VerifProgReopen() {
	cfg := &progCfg{maxPages: 64, ops: verifAllocOps, endings: []int{endCommit}, checkInTx: false}
	verifCfgVariant(cfg)
	s := verifNewProg(cfg)
	s.setup(verifParam("setup", 2))
	ntx := verifParam("ntx", 1)
	for t := 0; t < ntx; t++ {
		cfg.nOps = verifParam("nops", 3)
		s.runTx()
	}
	before := snapOf(s.f)
	availBefore := s.availNow()
	statsBefore := s.f.stats
	s.reopen()
	assertSnapEqual(before, snapOf(s.f), "after reopen", true)
	verifAssert(s.availNow() == availBefore, "after reopen: same number of allocatable pages")
	st := s.f.stats
	verifAssert(st.DataAllocated == statsBefore.DataAllocated && st.MetaArea == statsBefore.MetaArea &&
		st.MetaAllocated == statsBefore.MetaAllocated && st.MaxSize == statsBefore.MaxSize && st.PageSize == statsBefore.PageSize,
		"after reopen: same FileStats (pages in use, meta area, limits; the size estimate is not part of the claim)")
	s.checkCommitted("after reopen")
	s.assertPartition("after reopen")
	// one more symbolic transaction on the reopened instance
	cfg.nOps = verifParam("nops2", 1)
	cfg.endings = verifAllEnds
	s.runTx()
	s.checkCommitted("after a transaction on the reopened file")
	s.assertPartition("after a transaction on the reopened file")
	verifReach("end")
}

// VerifProgFreeCycle (C04, C11): many committed pages, then transactions that
// only free pages (the free-list pages themselves move around in the meta
// area while it has to grow), then allocation and overwrites; the ownership
// partition must hold after every commit.
func VerifProgFreeCycle() {
	cfg := &progCfg{maxPages: 64, concrete: true}
	cfg.metaArea = uint32(verifParam("metaarea", 0))
	s := verifNewProg(cfg)
	s.setup(verifParam("setup", 10))
	s.assertPartition("after setup")
	// two transactions that only free pages (how many and which ones is symbolic)
	for round := 0; round < 2; round++ {
		tx, err := s.f.Begin()
		verifAssert(err == nil, "Begin succeeds")
		w := s.m.clone()
		s.freed = s.freed[:0]
		nFree := 1 + verifChoose(verifParam("maxfree", 2))
		for k := 0; k < nFree && len(w.pages) > 2; k++ {
			i := len(w.pages) - 1 // the last page, or the second one
			if verifChoose(2) == 1 {
				i = 1
			}
			p, perr := tx.Page(w.pages[i].id)
			verifAssert(perr == nil, "a live page can be accessed")
			verifAssert(p.Free() == nil, "freeing a clean page succeeds")
			s.freed = append(s.freed, w.pages[i].id)
			w.remove(i)
		}
		verifAssert(tx.Commit() == nil, "Commit succeeds")
		s.m = w.clone()
		s.checkCommitted("after a transaction that frees pages")
		s.assertPartition("after a transaction that frees pages")
		s.checkSpace("after a transaction that frees pages")
	}
	// allocate and overwrite
	cfg.ops = []int{opAlloc, opOverwrite}
	cfg.nOps = verifParam("nops", 2)
	cfg.endings = []int{endCommit}
	s.runTx()
	s.checkCommitted("after allocation and overwrites")
	s.assertPartition("after allocation and overwrites")
	s.checkSpace("after allocation and overwrites")
	s.reopen()
	s.checkCommitted("after reopen")
	s.assertPartition("after reopen")
	verifReach("end")
}

// VerifProgOverflow (C04, C07, C10): a bounded file whose data area is full;
// a transaction with the overflow area enabled overwrites pages (its overwrite
// and metadata pages come from beyond the maximum size); commit or rollback;
// reopen.
func VerifProgOverflow() {
	cfg := &progCfg{maxPages: 64, concrete: true, overflow: true}
	cfg.metaArea = uint32(verifParam("metaarea", 2))
	s := verifNewProg(cfg)
	s.setup(2)
	// fill the data area completely (pages are allocated at the end of the file)
	cfg.overflow = false
	n := int(s.availNow())
	n -= verifChoose(verifParam("leave", 3)) // or leave one or two pages at the end of the file
	s.allocRaw(n)
	cfg.overflow = true
	s.assertPartition("full file")
	if verifBool("plainfirst") {
		// without the overflow area a transaction that needs an overwrite page cannot commit on the full file;
		// it must fail cleanly and release everything it acquired
		snap0 := snapOf(s.f)
		txp, perr := s.f.Begin()
		verifAssert(perr == nil, "Begin succeeds")
		nPlain := 1 + verifChoose(verifParam("maxplain", 4))
		wp := s.m.clone()
		for k := 0; k < nPlain; k++ {
			pp, _ := txp.Page(wp.pages[k].id)
			verifAssert(pp.SetBytes(verifBuf(9, uint8(k), 9)) == nil, "overwriting a live page succeeds")
			wp.pages[k].b0, wp.pages[k].b1, wp.pages[k].last, wp.pages[k].raw = 9, uint8(k), 9, false
		}
		cerr := txp.Commit() // fails if no overwrite page can be allocated any more
		if cerr == nil {
			s.m = wp.clone()
		} else {
			assertSnapEqual(snap0, snapOf(s.f), "after the failed commit on the full file", true)
		}
		s.checkCommitted("after the commit attempt on the full file")
		l := &s.f.locks
		verifAssert(l.sharedCount == 0 && !l.pendingSet, "lock idle after the commit attempt on the full file")
	}
	before := snapOf(s.f)
	statsBefore := s.f.stats

	tx, err := s.f.BeginWith(TxOptions{EnableOverflowArea: true, WALLimit: uint(verifParam("wallimit", 0))})
	verifAssert(err == nil, "Begin succeeds")
	w := s.m.clone()
	s.freed = s.freed[:0]
	nOver := 1 + verifChoose(verifParam("maxover", 3))
	for k := 0; k < nOver; k++ {
		rp := &w.pages[k]
		p, perr := tx.Page(rp.id)
		verifAssert(perr == nil, "a live page can be accessed")
		b0, b1 := s.content()
		verifAssert(p.SetBytes(verifBuf(b0, b1, b1)) == nil, "overwriting a live page succeeds")
		rp.b0, rp.b1, rp.last, rp.raw = b0, b1, b1, false
	}
	if verifBool("flush") {
		verifAssert(tx.Flush() == nil, "Flush with the overflow area enabled succeeds")
	}
	checkView(tx, w, "inside the transaction")
	if verifBool("commit") {
		cerr := tx.Commit()
		verifAssert(cerr == nil, "Commit with the overflow area enabled succeeds on a full file")
		s.m = w.clone()
	} else {
		verifAssert(tx.Rollback() == nil, "Rollback succeeds")
		assertSnapEqual(before, snapOf(s.f), "after rollback of a transaction that used the overflow area", true)
		verifAssert(s.f.stats == statsBefore, "after rollback: FileStats unchanged")
	}
	s.checkCommitted("after the overflow transaction")
	s.assertPartition("after the overflow transaction")
	// an aborted transaction afterwards must not disturb the committed overflow pages
	{
		snapA := snapOf(s.f)
		txa, aerr := s.f.BeginWith(TxOptions{EnableOverflowArea: verifBool("abortoverflow")})
		verifAssert(aerr == nil, "Begin succeeds")
		pa, _ := txa.Page(s.m.pages[len(s.m.pages)-1].id)
		if !s.m.pages[len(s.m.pages)-1].raw {
			_ = pa.SetBytes(verifBuf(8, 8, 8))
		}
		if verifBool("abortflush") {
			_ = txa.Flush()
		}
		verifAssert(txa.Rollback() == nil, "Rollback succeeds")
		assertSnapEqual(snapA, snapOf(s.f), "after an aborted transaction on the file with overflow pages", true)
		s.checkCommitted("after an aborted transaction on the file with overflow pages")
	}
	// whatever the allocator still counts as allocatable can be allocated, and is owned by nobody else
	if av := int(s.availNow()); av > 0 {
		txb, berr := s.f.Begin()
		verifAssert(berr == nil, "Begin succeeds")
		ps, aerr := txb.AllocN(av)
		verifAssert(aerr == nil && len(ps) == av, "every page counted as allocatable can be allocated")
		cfg.overflow = false
		for _, p := range ps {
			s.checkOwnership(s.m, p.ID())
		}
		cfg.overflow = true
		verifAssert(txb.Rollback() == nil, "Rollback succeeds")
	}
	s.reopen()
	s.checkCommitted("after reopen")
	s.assertPartition("after reopen")
	// free pages so that the overflow area can be released again, then use the file normally
	cfg.overflow = false
	tx2, err2 := s.f.BeginWith(TxOptions{EnableOverflowArea: true})
	verifAssert(err2 == nil, "Begin succeeds")
	w2 := s.m.clone()
	for k := 0; k < 6 && len(w2.pages) > 3; k++ {
		i := len(w2.pages) - 1
		p, _ := tx2.Page(w2.pages[i].id)
		verifAssert(p.Free() == nil, "free")
		w2.remove(i)
	}
	verifAssert(tx2.Commit() == nil, "Commit succeeds")
	s.m = w2.clone()
	s.checkCommitted("after freeing pages")
	s.assertPartition("after freeing pages")
	// the released overflow pages are gone for a reopened instance as well
	snapR := snapOf(s.f)
	availR := s.availNow()
	s.reopen()
	assertSnapEqual(snapR, snapOf(s.f), "reopened after the overflow area was released", true)
	verifAssert(s.availNow() == availR, "reopened after the overflow area was released: same number of allocatable pages")
	s.checkCommitted("reopened after the overflow area was released")
	s.checkStats("reopened after the overflow area was released")
	verifReach("end")
}
