//go:build verif

package txfile

// Entry points of the from-init program harnesses.

var verifAllOps = []int{opAlloc, opAllocN, opOverwrite, opPartial, opLoadDirty, opFree, opFlush, opCheckpoint, opSetRoot, opPageFlush}
var verifAllEnds = []int{endCommit, endRollback, endClose}

// setup commits two pages (ids chosen by the allocator) and a root.
func (s *progState) setup(n int) {
	tx, err := s.f.Begin()
	verifAssert(err == nil, "Begin succeeds")
	w := s.m.clone()
	for k := 0; k < n; k++ {
		p, aerr := tx.Alloc()
		verifAssert(aerr == nil, "Alloc on an empty file succeeds")
		s.checkOwnership(w, p.ID())
		b0, b1 := s.content()
		verifAssert(p.SetBytes(verifBuf(b0, b1, b1)) == nil, "SetBytes succeeds")
		w.pages = append(w.pages, refPage{id: p.ID(), b0: b0, b1: b1, last: b1})
	}
	tx.SetRoot(w.pages[0].id)
	w.root = w.pages[0].id
	verifAssert(tx.Commit() == nil, "Commit succeeds")
	s.m = w.clone()
}

// VerifProgStore: sequential model (C03), ownership (C04), abort (C07),
// reopen (C10), space (C11) on a bounded file.
func VerifProgStore() {
	cfg := &progCfg{maxPages: 64, ops: verifAllOps, endings: verifAllEnds, checkInTx: true}
	cfg.metaArea = uint32(verifParam("metaarea", 0))
	cfg.walLimit = uint(verifParam("wallimit", 0))
	s := verifNewProg(cfg)
	s.checkSpace("after create")
	s.setup(verifParam("setup", 2))
	s.checkCommitted("after setup")
	s.checkSpace("after setup")
	s.checkStats("after setup")
	ntx := verifParam("ntx", 2)
	for t := 0; t < ntx; t++ {
		cfg.nOps = verifParam("nops", 2)
		if t > 0 {
			cfg.nOps = verifParam("nops2", 1)
		}
		s.runTx()
		s.checkCommitted("after transaction")
		s.checkSpace("after transaction")
		s.checkStats("after transaction")
	}
	s.reopen()
	s.checkCommitted("after reopen")
	s.checkSpace("after reopen")
	s.checkStats("after reopen")
	verifReach("end")
}

var verifAllocOps = []int{opAlloc, opAllocRaw, opAllocN, opFree, opFreeNew, opOverwrite, opFlush, opCheckpoint}

func verifCfgVariant(cfg *progCfg) {
	switch verifParam("variant", 0) {
	case 1:
		cfg.metaArea = 4
	case 2:
		cfg.overflow = true
	case 3:
		cfg.maxPages = 0 // unbounded
	case 4:
		cfg.metaArea = 4
		cfg.walLimit = 1
	}
}

// VerifProgAbort (C07, C04): a transaction that ends without a successful
// commit leaves the in-memory state, the stats, the file size and the outcome
// of later allocations exactly as they were at Begin.
func VerifProgAbort() {
	cfg := &progCfg{maxPages: 64, ops: verifAllocOps, endings: []int{endRollback, endClose}, checkInTx: true}
	verifCfgVariant(cfg)
	s := verifNewProg(cfg)
	s.setup(verifParam("setup", 2))
	if verifParam("pre", 1) > 0 {
		// a committed transaction first, so that free lists / overwrite pages exist
		cfg.nOps = verifParam("pre", 1)
		cfg.endings = []int{endCommit}
		s.runTx()
		cfg.endings = []int{endRollback, endClose}
	}
	before := snapOf(s.f)
	statsBefore := s.f.stats
	szBefore, _ := s.disk.Size()
	s.assertPartition("before the aborted transaction")

	cfg.nOps = verifParam("nops", 2)
	s.runTx()

	assertSnapEqual(before, snapOf(s.f), "after abort", true)
	verifAssert(s.f.stats == statsBefore, "after abort: FileStats unchanged")
	szAfter, _ := s.disk.Size()
	if cfg.maxPages > 0 && !cfg.overflow {
		verifAssert(szAfter <= int64(cfg.maxPages)*verifPageSize, "after abort: file within its maximum size")
	}
	_ = szBefore
	s.checkCommitted("after abort")
	s.checkSpace("after abort")
	s.assertPartition("after abort")

	// a following transaction allocates only unused pages and commits
	cfg.ops = []int{opAlloc, opAllocN}
	cfg.nOps = 2
	cfg.endings = []int{endCommit}
	s.runTx()
	s.checkCommitted("after the follow-up transaction")
	s.assertPartition("after the follow-up transaction")
	s.checkSpace("after the follow-up transaction")
	s.reopen()
	s.checkCommitted("after reopen")
	verifReach("end")
}

// VerifProgOwn (C04, C11): ownership partition, counting identity and stats
// after every commit of symbolic allocation/free/overwrite programs.
func VerifProgOwn() {
	cfg := &progCfg{maxPages: 64, ops: verifAllocOps, endings: []int{endCommit}, checkInTx: false}
	verifCfgVariant(cfg)
	s := verifNewProg(cfg)
	s.setup(verifParam("setup", 2))
	s.assertPartition("after setup")
	ntx := verifParam("ntx", 2)
	for t := 0; t < ntx; t++ {
		cfg.nOps = verifParam("nops", 2)
		s.runTx()
		s.checkCommitted("after commit")
		s.assertPartition("after commit")
		s.checkSpace("after commit")
		s.checkStats("after commit")
	}
	verifReach("end")
}

// VerifProgReopen (C10): the reopened instance starts in the very state the
// running instance is in; later operations therefore behave identically.
func VerifProgReopen() {
	cfg := &progCfg{maxPages: 64, ops: verifAllocOps, endings: []int{endCommit}, checkInTx: false}
	verifCfgVariant(cfg)
	s := verifNewProg(cfg)
	s.setup(verifParam("setup", 2))
	ntx := verifParam("ntx", 1)
	for t := 0; t < ntx; t++ {
		cfg.nOps = verifParam("nops", 3)
		s.runTx()
	}
	before := snapOf(s.f)
	availBefore := s.availNow()
	statsBefore := s.f.stats
	s.reopen()
	assertSnapEqual(before, snapOf(s.f), "after reopen", true)
	verifAssert(s.availNow() == availBefore, "after reopen: same number of allocatable pages")
	st := s.f.stats
	verifAssert(st.DataAllocated == statsBefore.DataAllocated && st.MetaArea == statsBefore.MetaArea &&
		st.MetaAllocated == statsBefore.MetaAllocated && st.MaxSize == statsBefore.MaxSize && st.PageSize == statsBefore.PageSize,
		"after reopen: same FileStats (pages in use, meta area, limits; the size estimate is not part of the claim)")
	s.checkCommitted("after reopen")
	s.assertPartition("after reopen")
	// one more symbolic transaction on the reopened instance
	cfg.nOps = verifParam("nops2", 1)
	cfg.endings = verifAllEnds
	s.runTx()
	s.checkCommitted("after a transaction on the reopened file")
	s.assertPartition("after a transaction on the reopened file")
	verifReach("end")
}
