//go:build verif

package txfile

// G-LOCK (C09, C02): the real lock object and the real File under a symbolic
// scheduler (context switches at sync operations are solver decisions).

import "sync"

// VerifLockProtocol: R readers and W writers on the real lock; at most one
// writer between Reserved.Lock/Unlock, the exclusive section excludes shared
// sections, no deadlock (a lost wake-up leaves a thread blocked forever).
func VerifLockProtocol() {
	verifSched(verifParam("preempt", 2))
	l := newLock()
	nR, nW := verifParam("readers", 2), verifParam("writers", 2)
	inShared, inExcl, writers := 0, 0, 0
	var wg sync.WaitGroup
	for r := 0; r < nR; r++ {
		wg.Add(1)
		go func() {
			defer wg.Done()
			l.Shared().Lock()
			verifNativeLock()
			inShared++
			verifAssert(inExcl == 0, "no reader inside its shared section while a writer is in its exclusive section")
			verifNativeUnlock()
			verifYield()
			verifNativeLock()
			verifAssert(inExcl == 0, "no writer enters its exclusive section while a reader holds the shared lock")
			inShared--
			verifNativeUnlock()
			l.Shared().Unlock()
		}()
	}
	for w := 0; w < nW; w++ {
		wg.Add(1)
		go func() {
			defer wg.Done()
			l.Reserved().Lock()
			verifNativeLock()
			writers++
			verifAssert(writers == 1, "at most one write transaction is active")
			verifNativeUnlock()
			verifYield()
			l.Pending().Lock()
			l.Exclusive().Lock()
			verifNativeLock()
			inExcl++
			verifAssert(inShared == 0, "the exclusive section excludes shared sections")
			verifNativeUnlock()
			verifYield()
			verifNativeLock()
			verifAssert(inShared == 0, "no reader is admitted during the exclusive section")
			inExcl--
			verifNativeUnlock()
			l.Exclusive().Unlock()
			l.Pending().Unlock()
			verifNativeLock()
			writers--
			verifNativeUnlock()
			l.Reserved().Unlock()
		}()
	}
	wg.Wait()
	// idle again: every lock can be taken without waiting
	verifAssert(l.sharedCount == 0 && !l.pendingSet, "lock state is idle when no transaction is open")
	l.Reserved().Lock()
	l.Pending().Lock()
	l.Exclusive().Lock()
	l.Exclusive().Unlock()
	l.Pending().Unlock()
	l.Reserved().Unlock()
	l.Shared().Lock()
	l.Shared().Unlock()
	verifReach("end")
}

// VerifFileConcurrent: one writer transaction (symbolic ending) against
// readers on the real File: snapshot isolation (C02), no deadlock, Close
// returns (C09).
func VerifFileConcurrent() {
	cfg := &progCfg{maxPages: 64, concrete: true}
	s := verifNewProg(cfg)
	s.setup(2)
	id0 := s.m.pages[0].id
	v0 := s.m.pages[0].b1 // version marker of the committed content
	if verifParam("observer", 0) == 1 {
		s.f.observer = verifNopObserver{} // an application that watches the file's statistics
	}
	verifSched(verifParam("preempt", 2))
	f := s.f

	// committed history: content marker b1 of page id0 per version
	ver := 0          // number of completed commits
	inCommit := false // a Commit call is in progress
	marks := []uint8{v0, 0x77, 0}
	oldRoot := s.m.root
	var newRoot PageID
	var wg sync.WaitGroup

	ending := verifChoose(4) // commit / rollback / close / failing commit
	wg.Add(1)
	go func() {
		defer wg.Done()
		tx, err := f.Begin()
		verifAssert(err == nil, "Begin succeeds")
		p, perr := tx.Page(id0)
		verifAssert(perr == nil, "page access")
		verifAssert(p.SetBytes(verifBuf(0x77, 0x77, 0x77)) == nil, "overwrite")
		np, nerr := tx.Alloc() // the transaction also grows the file and moves the root
		verifAssert(nerr == nil, "alloc")
		verifAssert(np.SetBytes(verifBuf(0x78, 0x78, 0x78)) == nil, "write the new page")
		newRoot = np.ID()
		tx.SetRoot(newRoot)
		if verifBool("flush") {
			verifAssert(tx.Flush() == nil, "Flush")
		}
		switch ending {
		case 0:
			verifNativeLock()
			inCommit = true
			verifNativeUnlock()
			cerr := tx.Commit()
			verifAssert(cerr == nil, "Commit succeeds")
			verifNativeLock()
			ver++
			inCommit = false
			verifNativeUnlock()
		case 1:
			verifAssert(tx.Rollback() == nil, "Rollback")
		case 2:
			verifAssert(tx.Close() == nil, "Close")
		case 3:
			s.disk.faultKind, s.disk.faultOrd, s.disk.faultBurst = faultWrite, s.disk.counts[faultWrite], 1
			cerr := tx.Commit()
			verifAssert(cerr != nil, "Commit with a failing write returns an error")
			s.disk.faultKind = faultNone
		}
	}()

	nR := verifParam("readers", 2)
	for r := 0; r < nR; r++ {
		wg.Add(1)
		go func() {
			defer wg.Done()
			verifNativeLock()
			lo := ver
			verifNativeUnlock()
			rtx, err := f.BeginReadonly()
			verifAssert(err == nil, "BeginReadonly succeeds")
			verifNativeLock()
			hi := ver
			if inCommit {
				hi++
			}
			verifNativeUnlock()
			if verifBool("late") {
				verifYield() // first access to the page only later (e.g. while a commit waits for this reader)
				verifNativeSleep()
				verifNativeSleep()
				verifNativeSleep()
			}
			rp, perr := rtx.Page(id0)
			verifAssert(perr == nil, "page access")
			b, berr := rp.Bytes()
			verifAssert(berr == nil, "Bytes")
			seen := b[1]
			okv := false
			for v := lo; v <= hi && v < len(marks); v++ {
				if seen == marks[v] {
					okv = true
				}
			}
			verifAssert(okv, "a reader sees the state of a commit that completed before it began (or of the commit in progress when it began), never uncommitted data")
			// root, page bound and contents belong to one and the same commit
			if seen == v0 {
				verifAssert(rtx.Root() == oldRoot, "old contents come with the old root")
			} else {
				verifAssert(rtx.Root() == newRoot, "new contents come with the new root")
				rootPage, rerr := rtx.Page(rtx.Root())
				verifAssert(rerr == nil, "the committed root page is accessible")
				rb, rberr := rootPage.Bytes()
				verifAssert(rberr == nil && rb[1] == 0x78, "the committed root page is readable")
			}
			verifYield()
			b2, _ := rp.Bytes()
			verifAssert(b2[1] == seen && b2[0] == b[0] && b2[verifPageSize-1] == b[verifPageSize-1], "the view of a read transaction does not change while it is open")
			rp2, _ := rtx.Page(id0)
			b3, _ := rp2.Bytes()
			verifAssert(b3[1] == seen, "re-reading the page in the same read transaction gives the same content")
			verifAssert(rtx.Close() == nil, "closing the read transaction")
		}()
	}
	wg.Wait()
	// quiescent: committed state is the model
	if ending == 0 {
		s.m.pages[0].b0, s.m.pages[0].b1, s.m.pages[0].last = 0x77, 0x77, 0x77
		s.m.pages = append(s.m.pages, refPage{id: newRoot, b0: 0x78, b1: 0x78, last: 0x78})
		s.m.root = newRoot
	}
	s.checkCommitted("after all transactions ended")
	verifAssert(f.Close() == nil, "File.Close returns")
	verifReach("end")
}

// VerifLockBalance: every way a transaction can end leaves the lock idle
// (sequential; the file-level counterpart of the protocol harness).
func VerifLockBalance() {
	cfg := &progCfg{maxPages: 64, concrete: true}
	s := verifNewProg(cfg)
	s.setup(2)
	f := s.f
	l := &f.locks
	for round := 0; round < 2; round++ {
		kind := verifChoose(7)
		switch kind {
		case 0, 1, 2, 3:
			tx, err := f.Begin()
			verifAssert(err == nil, "Begin")
			p, _ := tx.Page(s.m.pages[0].id)
			b0, b1 := s.content()
			verifAssert(p.SetBytes(verifBuf(b0, b1, b1)) == nil, "overwrite")
			switch kind {
			case 0:
				verifAssert(tx.Commit() == nil, "Commit")
				s.m.pages[0].b0, s.m.pages[0].b1, s.m.pages[0].last = b0, b1, b1
			case 1:
				verifAssert(tx.Rollback() == nil, "Rollback")
			case 2:
				verifAssert(tx.Close() == nil, "Close")
			case 3:
				fk := []int{faultWrite, faultSync}[verifChoose(2)]
				s.disk.faultKind, s.disk.faultOrd, s.disk.faultBurst = fk, s.disk.counts[fk]+verifChoose(2), 1
				cerr := tx.Commit()
				s.disk.faultKind = faultNone
				if cerr == nil {
					s.m.pages[0].b0, s.m.pages[0].b1, s.m.pages[0].last = b0, b1, b1
				}
			}
		case 4, 5, 6:
			tx, err := f.BeginReadonly()
			verifAssert(err == nil, "BeginReadonly")
			switch kind {
			case 4:
				verifAssert(tx.Close() == nil, "Close")
			case 5:
				verifAssert(tx.Commit() == nil, "Commit of a read-only transaction")
			case 6:
				verifAssert(tx.Rollback() == nil, "Rollback of a read-only transaction")
			}
		}
		verifAssert(l.sharedCount == 0 && !l.pendingSet, "lock idle after the transaction ended")
		verifAssert(l.reserved.TryLock(), "reserved lock free after the transaction ended")
		l.reserved.Unlock()
	}
	rtx, rerr := f.BeginReadonly()
	verifAssert(rerr == nil, "BeginReadonly returns")
	wtx, werr := f.Begin()
	verifAssert(werr == nil, "Begin returns")
	verifAssert(rtx.Close() == nil && wtx.Close() == nil, "both close")
	verifAssert(f.Close() == nil, "File.Close returns")
	verifReach("end")
}

// VerifShadow (C02): a read transaction opened before a write transaction
// keeps seeing exactly its snapshot whatever the writer does (writes, Flush,
// CheckpointWAL, frees, allocation) up to and including a rollback; a reader
// opened while the writer is active sees the committed state as well.
func VerifShadow() {
	cfg := &progCfg{maxPages: 64, ops: []int{opAlloc, opOverwrite, opPartial, opLoadDirty, opFree, opFlush, opPageFlush, opCheckpoint, opSetRoot}, concrete: true}
	verifCfgVariant(cfg)
	s := verifNewProg(cfg)
	s.setup(2)
	if n := verifParam("pre", 1); n > 0 {
		cfg.nOps = n
		cfg.endings = []int{endCommit}
		s.runTx() // gives S an overwrite mapping / free list
	}
	rtx, err := s.f.BeginReadonly()
	verifAssert(err == nil, "BeginReadonly")
	checkView(rtx, s.m, "reader before the writer")

	tx, terr := s.f.Begin()
	verifAssert(terr == nil, "Begin while a reader is open")
	w := s.m.clone()
	n := verifParam("nops", 2)
	for k := 0; k < n; k++ {
		s.step(tx, w)
		checkView(rtx, s.m, "reader during the write transaction")
	}
	// a reader that begins now sees the committed state too
	rtx2, err2 := s.f.BeginReadonly()
	verifAssert(err2 == nil, "BeginReadonly during a write transaction")
	checkView(rtx2, s.m, "reader begun during the write transaction")
	checkView(tx, w, "the writer sees its own changes")
	// pages that exist only in the running write transaction are invisible to readers
	committedEnd := s.f.getMetaPage().dataEndMarker.Get()
	for i := range w.pages {
		id := w.pages[i].id
		if s.m.find(id) >= 0 || id < committedEnd {
			continue
		}
		_, e1 := rtx.Page(id)
		_, e2 := rtx2.Page(id)
		verifAssert(e1 != nil && e2 != nil, "a page allocated by the running write transaction beyond the committed end of the file cannot be accessed by a reader")
	}
	if verifBool("rollback") {
		verifAssert(tx.Rollback() == nil, "Rollback")
	} else {
		verifAssert(tx.Close() == nil, "Close")
	}
	checkView(rtx, s.m, "reader after the rollback")
	checkView(rtx2, s.m, "second reader after the rollback")
	verifAssert(rtx.Close() == nil && rtx2.Close() == nil, "readers close")
	s.checkCommitted("after everything")
	verifReach("end")
}


// VerifCloseConcurrent (C09): File.Close called while a write transaction is
// open must wait for it without blocking read transactions the writer's owner
// still starts; no deadlock; everything returns once the writer finishes.
func VerifCloseConcurrent() {
	cfg := &progCfg{maxPages: 64, concrete: true}
	s := verifNewProg(cfg)
	s.setup(2)
	f := s.f
	if p := verifParam("preempt", 0); p > 0 {
		verifSched(p)
	}
	readonly := verifBool("readonly")
	var tx *Tx
	var err error
	if readonly {
		tx, err = f.BeginReadonly()
	} else {
		tx, err = f.Begin()
	}
	verifAssert(err == nil, "Begin succeeds")
	closed := false
	var wg sync.WaitGroup
	wg.Add(1)
	go func() {
		defer wg.Done()
		verifAssert(f.Close() == nil, "File.Close succeeds")
		closed = true
	}()
	verifPoll() // Close runs until it has to wait for the open transaction
	verifAssert(!closed, "Close waits for the open transaction")
	if !readonly {
		// the owner of the write transaction can still read through a second transaction
		rtx, rerr := f.BeginReadonly()
		verifAssert(rerr == nil, "BeginReadonly while Close waits for a write transaction does not block")
		checkView(rtx, s.m, "reader while Close is waiting")
		verifAssert(rtx.Close() == nil, "closing the reader")
		p, _ := tx.Page(s.m.pages[0].id)
		verifAssert(p.SetBytes(verifBuf(5, 5, 5)) == nil, "the open write transaction keeps working")
		if verifBool("commit") {
			verifAssert(tx.Commit() == nil, "Commit succeeds while Close is waiting")
		} else {
			verifAssert(tx.Rollback() == nil, "Rollback succeeds")
		}
	} else {
		verifAssert(tx.Close() == nil, "closing the reader")
	}
	wg.Wait()
	verifAssert(closed, "File.Close returned after the transaction ended")
	verifReach("end")
}

type verifNopObserver struct{}

func (verifNopObserver) OnOpen(stats FileStats)                {}
func (verifNopObserver) OnTxBegin(readonly bool)               {}
func (verifNopObserver) OnTxClose(file FileStats, tx TxStats) {}
