//go:build verif

package txfile

// Exported entry points for the pq harnesses (package pq cannot reach the
// unexported simulated disk and openWith).

type VerifDisk struct{ m *memFile }

const (
	VerifFaultNone       = faultNone
	VerifFaultWrite      = faultWrite
	VerifFaultShortWrite = faultShortWrite
	VerifFaultSync       = faultSync
)

func VerifNewDisk(capacity int) *VerifDisk { return &VerifDisk{m: newMemFile(capacity)} }

func VerifDiskFrom(img []byte, capacity int) *VerifDisk {
	return &VerifDisk{m: memFileFrom(img, capacity)}
}

func (d *VerifDisk) Image() []byte { return d.m.image() }

func (d *VerifDisk) Size() int { return len(d.m.data) }

// SetFault arms the ord-th call (from now) of the given kind to fail, burst times.
func (d *VerifDisk) SetFault(kind, ord, burst int) {
	d.m.faultKind, d.m.faultOrd, d.m.faultBurst = kind, d.m.counts[kind]+ord, burst
}

func (d *VerifDisk) ClearFault()  { d.m.faultKind = faultNone }
func (d *VerifDisk) Faults() int  { return d.m.nfaults }
func (d *VerifDisk) NumOps() int  { return len(d.m.ops) }
func (d *VerifDisk) StopRecord()  { d.m.record = false }

// StartRecording makes the current content the durable base image of a crash experiment.
func (d *VerifDisk) StartRecording() []byte { return d.m.startRecording() }

// CrashImage builds the disk content after a crash at op index k; pattern as in VerifCrash:
// 0 all un-synced writes kept, 1 all lost, 2+2i only the i-th lost, 3+2i only the i-th kept.
func (d *VerifDisk) CrashImage(base []byte, k, pattern int) []byte {
	ops := d.m.ops
	lastSync := -1
	for j := 0; j < k; j++ {
		if ops[j].kind == memOpSync {
			lastSync = j
		}
	}
	var unsynced []int
	for j := lastSync + 1; j < k; j++ {
		if ops[j].kind != memOpSync {
			unsynced = append(unsynced, j)
		}
	}
	keep := func(j int) bool {
		idx := -1
		for i, u := range unsynced {
			if u == j {
				idx = i
			}
		}
		switch {
		case pattern == 0:
			return true
		case pattern == 1:
			return false
		case pattern%2 == 0:
			return idx != (pattern-2)/2
		default:
			return idx == (pattern-3)/2
		}
	}
	return crashImage(base, ops, k, keep, -1)
}

// Unsynced returns the number of writes after the last sync among ops[0:k].
func (d *VerifDisk) Unsynced(k int) int {
	ops := d.m.ops
	n := 0
	for j := 0; j < k; j++ {
		if ops[j].kind == memOpSync {
			n = 0
		} else {
			n++
		}
	}
	return n
}

// VerifOpen opens (or creates) a file on the simulated disk.
func VerifOpen(d *VerifDisk, opts Options) (*File, error) {
	f, err := openWith(d.m, opts)
	if err != nil {
		return nil, err
	}
	f.reportOpen()
	return f, nil
}

// VerifAvail reports the number of pages a transaction could still allocate.
func VerifAvail(f *File) uint {
	a := &f.allocator
	n := a.data.freelist.Avail()
	if end := uint(a.data.endMarker); a.maxPages > 0 && end < a.maxPages {
		n += a.maxPages - end
	}
	return n
}

// VerifExtent reports the file extent in pages and the meta area size.
func VerifExtent(f *File) (dataEnd, metaEnd, metaTotal uint) {
	a := &f.allocator
	return uint(a.data.endMarker), uint(a.meta.endMarker), a.metaTotal
}

// VerifMetaAvail reports the number of free pages in the meta area.
func VerifMetaAvail(f *File) uint { return f.allocator.meta.freelist.Avail() }
