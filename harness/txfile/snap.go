//go:build verif

package txfile

// Canonical snapshots of the in-memory file state, used to compare a file
// with its "untouched twin" (C07), with its reopened self (C10, C14), etc.

type fileSnap struct {
	dataEnd, metaEnd PageID
	metaTotal        uint
	dataFree         []PageID
	metaFree         []PageID
	dataAvail        uint
	metaAvail        uint
	freelistPages    []PageID
	walMeta          []PageID
	walFrom, walTo   []PageID // sorted by walFrom
	root             PageID
	maxPages         uint
	metaActive       int
	txid             uint64
}

func pagesOf(l regionList) []PageID {
	var ids []PageID
	for _, r := range l {
		for k := uint32(0); k < r.count; k++ {
			ids = append(ids, r.id+PageID(k))
		}
	}
	// insertion sort (lists are short)
	for i := 1; i < len(ids); i++ {
		for j := i; j > 0 && ids[j] < ids[j-1]; j-- {
			ids[j], ids[j-1] = ids[j-1], ids[j]
		}
	}
	return ids
}

func snapOf(f *File) *fileSnap {
	a := &f.allocator
	s := &fileSnap{
		dataEnd: a.data.endMarker, metaEnd: a.meta.endMarker, metaTotal: a.metaTotal,
		dataFree: pagesOf(a.data.freelist.regions), metaFree: pagesOf(a.meta.freelist.regions),
		dataAvail: a.data.freelist.avail, metaAvail: a.meta.freelist.avail,
		freelistPages: pagesOf(a.freelistPages), walMeta: pagesOf(f.wal.metaPages),
		maxPages: a.maxPages, metaActive: f.metaActive,
	}
	meta := f.getMetaPage()
	s.root = meta.root.Get()
	s.txid = meta.txid.Get()
	for from, to := range f.wal.mapping {
		// sorted insert
		k := len(s.walFrom)
		s.walFrom = append(s.walFrom, from)
		s.walTo = append(s.walTo, to)
		for k > 0 && s.walFrom[k] < s.walFrom[k-1] {
			s.walFrom[k], s.walFrom[k-1] = s.walFrom[k-1], s.walFrom[k]
			s.walTo[k], s.walTo[k-1] = s.walTo[k-1], s.walTo[k]
			k--
		}
	}
	return s
}

func idsEqual(a, b []PageID) bool {
	if len(a) != len(b) {
		return false
	}
	for i := range a {
		if a[i] != b[i] {
			return false
		}
	}
	return true
}

// assertSnapEqual asserts field by field that two snapshots describe the same
// file state (what names the comparison in the messages).
func assertSnapEqual(a, b *fileSnap, what string, withHeader bool) {
	verifAssert(a.dataEnd == b.dataEnd, what+": data end marker unchanged")
	verifAssert(a.metaEnd == b.metaEnd, what+": meta end marker unchanged")
	verifAssert(a.metaTotal == b.metaTotal, what+": meta area size unchanged")
	verifAssert(idsEqual(a.dataFree, b.dataFree), what+": set of free data pages unchanged")
	verifAssert(idsEqual(a.metaFree, b.metaFree), what+": set of free meta pages unchanged")
	verifAssert(a.dataAvail == b.dataAvail && a.metaAvail == b.metaAvail, what+": free page counters unchanged")
	verifAssert(idsEqual(a.walFrom, b.walFrom) && idsEqual(a.walTo, b.walTo), what+": overwrite mapping unchanged")
	verifAssert(a.root == b.root, what+": root unchanged")
	verifAssert(a.maxPages == b.maxPages, what+": maximum size unchanged")
	if withHeader {
		verifAssert(idsEqual(a.freelistPages, b.freelistPages), what+": free list metadata pages unchanged")
		verifAssert(idsEqual(a.walMeta, b.walMeta), what+": overwrite log metadata pages unchanged")
		verifAssert(a.metaActive == b.metaActive && a.txid == b.txid, what+": active header unchanged")
	}
}

// assertDisjoint asserts the ownership partition of the committed state: free
// lists, overwrite pages, metadata pages and live pages are pairwise disjoint.
func (s *progState) assertPartition(what string) {
	sn := snapOf(s.f)
	for _, l := range []regionList{s.f.allocator.data.freelist.regions, s.f.allocator.meta.freelist.regions} {
		for k := range l {
			verifAssert(l[k].count > 0, what+": no free list holds an empty region")
			verifAssert(k == 0 || l[k-1].id+PageID(l[k-1].count) <= l[k].id, what+": free list regions are sorted and do not overlap")
		}
	}
	owner := map[PageID]int{}
	add := func(ids []PageID, who int) {
		for _, id := range ids {
			verifAssert(id >= 2, what+": no list contains a header page")
			_, dup := owner[id]
			verifAssert(!dup, what+": every page has at most one owner (free lists, overwrite pages, metadata pages, live pages are disjoint)")
			owner[id] = who
		}
	}
	add(sn.dataFree, 1)
	add(sn.metaFree, 2)
	add(sn.walTo, 3)
	add(sn.walMeta, 4)
	add(sn.freelistPages, 5)
	var live []PageID
	for i := range s.m.pages {
		live = append(live, s.m.pages[i].id)
	}
	add(live, 6)
	for _, id := range sn.dataFree {
		verifAssert(id < sn.dataEnd, what+": free data pages lie below the data end marker")
	}
	// meta area accounting
	verifAssert(sn.metaTotal == uint(len(sn.metaFree)+len(sn.walTo)+len(sn.walMeta)+len(sn.freelistPages)),
		what+": meta area == free meta pages + overwrite pages + metadata pages")
}
