//go:build verif && verifnative

package txfile

// Native twin of the C18 harness: the same sequences on real files with the
// real flock (I/O failures during initialisation cannot be injected natively
// and are skipped).

import (
	"os"
	"path/filepath"
	"runtime/debug"

	"github.com/gofrs/flock"
)

func verifFlockHeld(path string) bool {
	l := flock.New(path)
	ok, err := l.TryLock()
	if err != nil {
		return true
	}
	if ok {
		l.Unlock()
		return false
	}
	return true
}

func verifDamage(path string, restore []byte) []byte {
	fh, err := os.OpenFile(path, os.O_RDWR, 0600)
	if err != nil {
		return nil
	}
	defer fh.Close()
	buf := make([]byte, 2)
	fh.ReadAt(buf[:1], 0)
	fh.ReadAt(buf[1:], verifPageSize)
	if restore != nil {
		fh.WriteAt(restore[:1], 0)
		fh.WriteAt(restore[1:], verifPageSize)
		return nil
	}
	fh.WriteAt([]byte{buf[0] ^ 0xff}, 0)
	fh.WriteAt([]byte{buf[1] ^ 0xff}, verifPageSize)
	return buf
}

func VerifPathLock() {
	// a leaked lock descriptor would be released by a finalizer; keep it observable
	defer debug.SetGCPercent(debug.SetGCPercent(-1))
	dir, derr := os.MkdirTemp("", "verifc18")
	verifAssert(derr == nil, "temp dir")
	defer os.RemoveAll(dir)
	path := filepath.Join(dir, "queue.dat")
	lockPath := path + ".lock"
	opts := Options{MaxSize: 64 * verifPageSize, PageSize: verifPageSize}
	if verifParam("txsteps", 1) == 1 && verifBool("unbounded") {
		opts.MaxSize = 0
	}
	nKinds := 6
	if verifParam("txsteps", 1) == 1 {
		nKinds = 7
	}
	var open *File
	grown := false
	nSteps := verifParam("steps", 3)
	for step := 0; step < nSteps; step++ {
		verifAssert(verifFlockHeld(lockPath) == (open != nil), "the path lock is held exactly while a File is open")
		switch verifChoose(nKinds) {
		case 6:
			if open != nil {
				tx, berr := open.Begin()
				verifAssert(berr == nil, "Begin succeeds on the open File")
				n := 1
				if opts.MaxSize == 0 && !grown {
					n, grown = 70, true
				}
				if ps, aerr := tx.AllocN(n); aerr == nil {
					_ = ps[0].SetBytes(verifBuf(1, 2, 3))
				}
				if verifParam("nofault", 0) == 0 {
					verifChoose(4) // (failures cannot be injected natively; keep the variable numbering)
				}
				_ = tx.Commit()
			}
		case 0:
			f, err := Open(path, 0600, opts)
			if open != nil {
				verifAssert(err != nil && f == nil, "a second Open of an open path fails")
			} else {
				verifAssert(err == nil && f != nil, "Open of a closed path succeeds")
				open = f
			}
		case 1:
			bad := opts
			bad.PageSize = 1000
			f, err := Open(path, 0600, bad)
			verifAssert(err != nil && f == nil, "Open with invalid options fails")
		case 2:
			if st, serr := os.Stat(path); open == nil && serr == nil && st.Size() >= 2*verifPageSize {
				saved := verifDamage(path, nil)
				f, err := Open(path, 0600, opts)
				verifAssert(err != nil && f == nil, "Open with both headers damaged fails")
				verifDamage(path, saved)
			}
		case 3:
			if open == nil && verifParam("nofault", 0) == 0 {
				verifChoose(len(verifFaultKinds)) // keep the variable numbering of the engine harness
			}
		case 4:
			if open == nil {
				f, err := Open(filepath.Join(dir, "missing", "queue.dat"), 0600, opts)
				verifAssert(err != nil && f == nil, "Open fails when the OS refuses to open the file")
			}
		case 5:
			if open != nil {
				_ = open.Close()
				open = nil
			}
		}
	}
	verifAssert(verifFlockHeld(lockPath) == (open != nil), "the path lock is held exactly while a File is open")
	if open != nil {
		_ = open.Close()
	}
	verifAssert(!verifFlockHeld(lockPath), "after Close the path lock is free")
	f, err := Open(path, 0600, opts)
	verifAssert(err == nil && f != nil, "after Close (and after any failed Open) the path can be opened again immediately")
	verifAssert(f.Close() == nil, "Close succeeds")
	verifReach("end")
}

func VerifPathLockWait() {
	dir, derr := os.MkdirTemp("", "verifc18")
	verifAssert(derr == nil, "temp dir")
	defer os.RemoveAll(dir)
	path := filepath.Join(dir, "queue.dat")
	opts := Options{MaxSize: 64 * verifPageSize, PageSize: verifPageSize}
	f1, err := Open(path, 0600, opts)
	verifAssert(err == nil, "first Open succeeds")
	var mu verifFlag
	done := make(chan *File, 1)
	extra := []Flag{0, FlagUpdMaxSize, FlagUnboundMaxSize | FlagUpdMaxSize}[verifChoose(3)]
	go func() {
		wopts := opts
		wopts.Flags |= FlagWaitLock | extra
		f, werr := Open(path, 0600, wopts)
		verifAssert(mu.get(), "Open with the wait flag returns only after the first File was closed")
		verifAssert(werr == nil && f != nil, "and then succeeds")
		done <- f
	}()
	verifNativeSleep()
	if verifBool("plainopen") {
		_, perr := Open(path, 0600, opts)
		verifAssert(perr != nil, "a plain Open meanwhile fails")
	}
	mu.set()
	verifAssert(f1.Close() == nil, "Close succeeds")
	f2 := <-done
	verifAssert(f2 != nil, "the waiting Open completed after Close")
	f3, err3 := Open(path, 0600, opts)
	verifAssert(err3 != nil && f3 == nil, "while the waiter holds the file, a third Open fails")
	verifAssert(f2.Close() == nil, "Close succeeds")
	verifAssert(!verifFlockHeld(path+".lock"), "the path lock is free at the end")
	f4, err4 := Open(path, 0600, opts)
	verifAssert(err4 == nil && f4 != nil, "and the path can be opened again")
	verifAssert(f4.Close() == nil, "Close succeeds")
	verifReach("end")
}

type verifFlag struct{ v int32 }

func (f *verifFlag) set()      { verifNativeLock(); f.v = 1; verifNativeUnlock() }
func (f *verifFlag) get() bool { verifNativeLock(); defer verifNativeUnlock(); return f.v == 1 }

func VerifPathLockClose() {
	dir, derr := os.MkdirTemp("", "verifc18")
	verifAssert(derr == nil, "temp dir")
	defer os.RemoveAll(dir)
	path := filepath.Join(dir, "queue.dat")
	opts := Options{MaxSize: 64 * verifPageSize, PageSize: verifPageSize}
	f1, err := Open(path, 0600, opts)
	verifAssert(err == nil, "first Open succeeds")
	var tx *Tx
	if verifBool("readonly") {
		tx, err = f1.BeginReadonly()
	} else {
		tx, err = f1.Begin()
	}
	verifAssert(err == nil, "Begin succeeds")
	var closed verifFlag
	done := make(chan struct{})
	go func() {
		verifAssert(f1.Close() == nil, "Close succeeds")
		closed.set()
		close(done)
	}()
	verifNativeSleep()
	verifNativeSleep()
	verifAssert(!closed.get(), "Close waits for the active transaction")
	f2, err2 := Open(path, 0600, opts)
	verifAssert(err2 != nil && f2 == nil, "while Close has not returned, a second Open of the path fails")
	verifAssert(tx.Close() == nil, "closing the transaction")
	<-done
	f3, err3 := Open(path, 0600, opts)
	verifAssert(err3 == nil && f3 != nil, "after Close the path can be opened again")
	verifAssert(f3.Close() == nil, "Close succeeds")
	verifReach("end")
}

// VerifPathLockResizeFail: natively the failures cannot be injected; the same
// sequence runs without them (counterexamples are confirmed inside the engine).
func VerifPathLockResizeFail() {
	dir, derr := os.MkdirTemp("", "verifc18")
	verifAssert(derr == nil, "temp dir")
	defer os.RemoveAll(dir)
	path := filepath.Join(dir, "queue.dat")
	lockPath := path + ".lock"
	opts := Options{MaxSize: 96 * verifPageSize, PageSize: verifPageSize}
	f0, err0 := Open(path, 0600, opts)
	verifAssert(err0 == nil, "creating the file succeeds")
	verifAssert(f0.Close() == nil, "Close succeeds")
	o := opts
	newMax := []uint64{128, 64}[verifChoose(2)]
	o.MaxSize, o.Flags, o.Prealloc = newMax*verifPageSize, FlagUpdMaxSize, verifBool("prealloc")
	verifChoose(len(verifFaultKinds))
	verifChoose(3)
	f, err := Open(path, 0600, o)
	verifAssert(err == nil, "Open with a new maximum size succeeds")
	verifAssert(verifFlockHeld(lockPath), "the path lock is held while the File is open")
	_ = f.Close()
	verifAssert(!verifFlockHeld(lockPath), "after Close the path lock is free")
	f2, err2 := Open(path, 0600, Options{PageSize: verifPageSize})
	verifAssert(err2 == nil && f2.Close() == nil, "the path opens again")
	verifReach("end")
}
