//go:build verif

package pq

import "sync"

// waiter is a small join helper for harness goroutines.
type waiter struct{ wg sync.WaitGroup }

func newWaiter(n int) *waiter {
	w := &waiter{}
	w.wg.Add(n)
	return w
}
func (w *waiter) done() { w.wg.Done() }
func (w *waiter) wait() { w.wg.Wait() }
