//go:build verif

package pq

// pq harnesses: the real Queue/Writer/Reader/ACK over the real txfile.File on
// the simulated disk.  Event sizes, Write chunkings, read buffer lengths, the
// positions of Flush/ACK/reopen, crash points and fault points are solver
// variables; the reference is the slice of appended events.

import (
	txfile "github.com/elastic/go-txfile"
)

const (
	qPageSize = 1024
	qPayload  = qPageSize - szEventPageHeader // event bytes per page
)

// interesting event sizes around page / header boundaries (payload is 996, event header 4)
var qSizes = []int{
	qPayload - szEventHeader,       // 992: event ends exactly at the end of the page
	qPayload - 2*szEventHeader,     // 988: exactly one event header fits after it
	2*qPayload - szEventHeader,     // ends exactly at the end of the second page
	qPayload - szEventHeader + 1,   // 993: spills one byte
	1,                              // smallest event
	qPayload - 2*szEventHeader + 1, // 989: 3 bytes left, the next header does not fit
	qPayload - szEventHeader - 1,   // 991: one byte left in the page
	2*qPayload + 17,                // three pages
}

// pickSize lets the solver pick one of the first "nsizes" boundary sizes.
func pickSize() int {
	n := verifParam("nsizes", len(qSizes))
	if n > len(qSizes) {
		n = len(qSizes)
	}
	sz := qSizes[verifChoose(n)]
	verifLogU64("event size", uint64(sz))
	return sz
}

type qState struct {
	capacity int
	maxPages uint
	disk     *txfile.VerifDisk
	f        *txfile.File
	q        *Queue
	w        *Writer
	r        *Reader

	events  [][]byte // every event completed with Next, in order
	flushed int      // events known to be durable (successful flushes)
	acked   int      // events ACKed successfully
	read    int      // index of the next event the reader will deliver

	readMark int // position of the live reader instance
	skipMode int // > 0: events may be abandoned (Next without reading everything)
	cbSeen   uint
	marks    []qMark // state after every API call (for the crash oracle)

	cbFlushed, cbACKed uint
	ackedAtOpen        int // events ACKed before this queue instance was opened (callbacks count per instance)
	cbPages            uint
	wbuf               uint
}

type qMark struct {
	flushed, acked, events, ops int
}

// sync accounts for flush callbacks since the last call and records the state.
func (s *qState) sync() {
	if s.cbFlushed != s.cbSeen {
		s.flushed += int(s.cbFlushed - s.cbSeen)
		s.cbSeen = s.cbFlushed
	}
	s.marks = append(s.marks, qMark{s.flushed, s.acked, len(s.events), s.disk.NumOps()})
}

func (s *qState) opts() txfile.Options {
	return txfile.Options{MaxSize: uint64(s.maxPages) * qPageSize, PageSize: qPageSize}
}

func newQ(maxPages uint, wbuf uint) *qState {
	s := &qState{capacity: 96 * 1024, maxPages: maxPages, wbuf: wbuf}
	s.disk = txfile.VerifNewDisk(s.capacity)
	s.open()
	return s
}

// open opens the file on s.disk and creates the queue objects.
func (s *qState) open() {
	f, err := txfile.VerifOpen(s.disk, s.opts())
	verifAssert(err == nil, "opening the file succeeds")
	s.f = f
	d, derr := NewStandaloneDelegate(f)
	verifAssert(derr == nil, "creating the queue delegate succeeds")
	q, qerr := New(d, Settings{
		WriteBuffer: s.wbuf,
		Flushed:     func(n uint) { s.cbFlushed += n },
		ACKed:       func(n, pages uint) { s.cbACKed += n; s.cbPages += pages },
	})
	verifAssert(qerr == nil, "opening the queue succeeds")
	s.q = q
	w, werr := q.Writer()
	verifAssert(werr == nil, "Writer()")
	s.w = w
	s.r = q.Reader()
}

var qPattern []byte

// eventData returns n bytes that depend on the event number and the offset.
func eventData(e, n int) []byte {
	if qPattern == nil {
		qPattern = make([]byte, 251)
		for j := range qPattern {
			qPattern[j] = uint8(j*11 + 3)
		}
	}
	b := make([]byte, n)
	for off := 0; off < n; {
		off += copy(b[off:], qPattern[(e*37+off/251)%200:])
	}
	if n > 0 {
		b[0] = uint8(e + 1)
		b[n-1] = uint8(0xA0 + e)
	}
	return b
}

// appendEvent writes one event of n bytes in the given number of chunks.
// Returns false if the queue reported an error (file full).
func (s *qState) appendEvent(n, chunks int) bool {
	e := len(s.events)
	data := eventData(e, n)
	rest := data
	for c := 0; c < chunks; c++ {
		part := rest
		if c < chunks-1 {
			part = rest[:len(rest)/2]
		}
		k, err := s.w.Write(part) // may flush complete events first
		s.sync()
		if err != nil {
			return false
		}
		verifAssert(k == len(part), "Write consumes the whole chunk")
		rest = rest[len(part):]
	}
	err := s.w.Next()
	// the event is complete in the buffer even if the implicit flush failed
	s.events = append(s.events, data)
	s.sync()
	return err == nil
}

func (s *qState) flush() bool {
	err := s.w.Flush()
	s.sync()
	if err != nil {
		return false
	}
	verifAssert(s.flushed == len(s.events), "after a successful Flush every completed event is flushed")
	return true
}

// readEvents reads up to max events with read buffers of length bl and checks
// them against the reference.
func (s *qState) readEvents(max, bl int) {
	verifAssert(s.r.Begin() == nil, "Reader.Begin succeeds")
	avail, aerr := s.r.Available()
	verifAssert(aerr == nil, "Reader.Available succeeds")
	verifAssert(int(avail) == s.flushed-s.read, "Reader.Available == flushed events not yet consumed")
	for k := 0; k < max; k++ {
		n, err := s.r.Next()
		verifAssert(err == nil, "Reader.Next succeeds")
		if s.read >= s.flushed {
			verifAssert(n == 0, "nothing is delivered beyond the last flushed event")
			break
		}
		want := s.events[s.read]
		verifAssert(n == len(want), "Next reports the size of the next event in append order")
		if s.skipMode > 0 {
			// abandon the event: read nothing or only a part of it; the following Next skips the rest
			if mode := verifChoose(3); mode > 0 {
				if mode == 2 && n > 1 {
					part := make([]byte, n/2)
					m, rerr := s.r.Read(part)
					verifAssert(rerr == nil && m == len(part), "partial Read succeeds")
					verifAssert(verifBytesEqual(part, want[:len(part)]), "the partially read bytes are the first bytes of the event")
				}
				s.read++
				s.readMark = s.read
				avail, aerr := s.r.Available()
				verifAssert(aerr == nil, "Reader.Available succeeds")
				verifAssert(int(avail) == s.flushed-s.read || int(avail) == s.flushed-s.read+1, "Available counts the abandoned event at most until the next call of Next")
				continue
			}
		}
		got := make([]byte, 0, n)
		buf := make([]byte, bl)
		for len(got) < n {
			m, rerr := s.r.Read(buf)
			verifAssert(rerr == nil, "Reader.Read succeeds")
			verifAssert(m > 0 && m <= bl, "Read returns between 1 and len(buf) bytes while the event has unread bytes")
			got = append(got, buf[:m]...)
		}
		verifAssert(len(got) == n, "the event is not longer than announced")
		m, rerr := s.r.Read(buf)
		verifAssert(rerr == nil && m == 0, "Read returns 0 at the end of the event (events are not merged)")
		verifAssert(verifBytesEqual(got, want), "the event bytes are exactly the bytes written")
		s.read++
		s.readMark = s.read
	}
	s.r.Done()
}

func (s *qState) ack(n int) {
	err := s.q.ACK(uint(n))
	verifAssert(err == nil, "ACK of delivered events succeeds")
	s.acked += n
	s.sync()
}

// checkCounters asserts C17 at a quiescent point.
func (s *qState) checkCounters(what string) {
	p, perr := s.q.Pending()
	verifAssert(perr == nil, what+": Pending succeeds")
	verifAssert(p == s.flushed-s.acked, what+": Pending == flushed - ACKed")
	a, aerr := s.q.Active()
	verifAssert(aerr == nil, what+": Active succeeds")
	verifAssert(int(a) == s.flushed-s.acked, what+": Active == flushed - ACKed")
	verifAssert(int(s.cbACKed) == s.acked-s.ackedAtOpen, what+": the ACKed callback reported exactly the events of the successful ACKs")
}

// reopen closes queue and file and opens the disk image again.
func (s *qState) reopen() {
	cerr := s.q.Close()
	s.sync()
	if cerr == nil {
		verifAssert(s.flushed == len(s.events), "a successful Close flushes every completed event")
	}
	verifAssert(s.f.Close() == nil, "File.Close succeeds")
	s.disk = txfile.VerifDiskFrom(s.disk.Image(), s.capacity)
	s.events = s.events[:s.flushed] // buffered events that were never flushed are gone
	s.read = s.acked                // reading resumes at the first un-ACKed event
	s.readMark = s.read
	s.cbSeen = s.cbFlushed
	s.open()
}

// drain reads and ACKs everything that is flushed.
func (s *qState) drain(bl int) {
	for s.read < s.flushed {
		s.readEvents(4, bl)
	}
	if s.read > s.acked {
		s.ack(s.read - s.acked)
	}
}

// VerifQueueFIFO (C05, C17): E events with symbolic sizes and chunkings,
// symbolic flush points, symbolic read-buffer length.
func VerifQueueFIFO() {
	s := newQ(64, uint(verifParam("wbuf", 0)))
	nEv := verifParam("events", 2)
	for e := 0; e < nEv; e++ {
		n := pickSize()
		chunks := 1 + verifChoose(verifParam("chunks", 2))
		verifAssert(s.appendEvent(n, chunks), "appending to a nearly empty file succeeds")
		if verifBool("flush") {
			verifAssert(s.flush(), "Flush succeeds")
		}
		if verifParam("readearly", 0) == 1 && verifBool("read") {
			s.readEvents(1, 4096)
		}
	}
	s.checkCounters("before the final flush")
	verifAssert(s.flush(), "Flush succeeds")
	verifAssert(s.cbFlushed == uint(len(s.events)), "the Flushed callback reported every event exactly once")
	s.checkCounters("after the final flush")
	bls := []int{1, 7, qPayload, 4096}
	bl := bls[verifChoose(len(bls))]
	if verifParam("readearly", 0) == 1 && bl == 1 {
		bl = 3
	}
	s.skipMode = verifParam("skip", 0)
	s.readEvents(nEv+1, bl)
	verifAssert(s.read == len(s.events), "every flushed event was delivered exactly once, in order")
	s.checkCounters("after reading")
	if s.skipMode > 0 {
		// the reader sits at the tail (possibly after abandoning the last event); more events arrive
		s.skipMode = 0
		verifAssert(s.appendEvent(pickSize(), 1), "append succeeds")
		verifAssert(s.flush(), "Flush succeeds")
		s.readEvents(2, 4096)
		verifAssert(s.read == len(s.events), "an event appended after the reader reached the tail is delivered")
	}
	s.ack(s.read - s.acked)
	verifAssert(s.cbACKed == uint(s.acked), "the ACKed callback reported every ACKed event")
	s.checkCounters("after the ACK")
	s.readEvents(1, 64)
	verifReach("end")
}

// VerifQueueReopen (C06 clean reopen, C17): events, flushes, partial read and
// ACK, a reopen at a symbolic point, more traffic, drain.
func VerifQueueReopen() {
	s := newQ(64, 0)
	nEv := verifParam("events", 2)
	reopenAt := verifChoose(nEv + 2) // before event k, or after the ACK
	for e := 0; e < nEv; e++ {
		if reopenAt == e {
			s.reopen()
			s.checkCounters("after reopen")
		}
		n := pickSize()
		verifAssert(s.appendEvent(n, 1), "append succeeds")
		if verifBool("flush") {
			verifAssert(s.flush(), "Flush succeeds")
		}
	}
	if reopenAt == nEv {
		if verifBool("partial") {
			// an unfinished event (Write without Next) is in the buffer while a flush happens
			k, werr := s.w.Write(eventData(99, 300))
			s.sync()
			verifAssert(werr == nil && k == 300, "Write succeeds")
			verifAssert(s.flush(), "Flush succeeds")
		}
		s.reopen() // Close flushes what is buffered; the unfinished event is dropped
		s.checkCounters("after reopen")
	}
	verifAssert(s.flush(), "Flush succeeds")
	// read some, ACK some of what was read
	nRead := verifChoose(nEv + 1)
	s.readEvents(nRead, 4096)
	if s.read > s.acked {
		s.ack(1 + verifChoose(s.read-s.acked))
	}
	s.checkCounters("after the partial ACK")
	if reopenAt == nEv+1 {
		s.reopen()
		s.checkCounters("after reopen")
		a, _ := s.q.Active()
		verifAssert(int(a) == s.flushed-s.acked, "after reopen the queue holds exactly the flushed minus the ACKed events")
	}
	// more traffic, then drain from the first un-ACKed event
	verifAssert(s.appendEvent(pickSize(), 1), "append succeeds")
	verifAssert(s.flush(), "Flush succeeds")
	s.read = s.acked
	s.r = s.q.Reader()
	if reopenAt != nEv+1 {
		// the same reader instance continues where it stopped; un-ACKed events it already
		// delivered are not delivered again by this instance
		s.read = s.readPos()
	}
	s.drain(4096)
	verifAssert(s.read == len(s.events), "everything flushed and not ACKed was delivered in order")
	s.checkCounters("after the drain")
	p, _ := s.q.Pending()
	verifAssert(p == 0, "nothing pending after everything was ACKed")
	verifReach("end")
}

// readPos is the index of the next event the current reader instance will deliver.
func (s *qState) readPos() int { return s.readMark }

// VerifQueueCrash (C06): a crash at any I/O boundary of a flush or an ACK; the
// reopened queue holds exactly the events of the completed flushes (plus,
// all-or-nothing, those of the flush in progress) minus the ACKed ones (or
// those of the ACK in progress), delivered in order from the first un-ACKed.
func VerifQueueCrash() {
	s := newQ(64, 0)
	// committed prefix: two flushed events, one of them read
	verifAssert(s.appendEvent(pickSize(), 1), "append succeeds")
	verifAssert(s.appendEvent(pickSize(), 1), "append succeeds")
	verifAssert(s.flush(), "Flush succeeds")
	s.readEvents(1, 4096)
	base := s.disk.StartRecording()
	s.marks = nil
	s.sync() // marks[0]: the committed prefix, I/O log index 0
	flushedBefore, ackedBefore := s.flushed, s.acked
	nEvBefore := len(s.events)

	// the operation that is interrupted
	op := verifChoose(3)
	switch op {
	case 0: // flush of one or two new events
		verifAssert(s.appendEvent(pickSize(), 1), "append succeeds")
		if verifBool("two") {
			verifAssert(s.appendEvent(pickSize(), 1), "append succeeds")
		}
		verifAssert(s.flush(), "Flush succeeds")
	case 1:
		s.ack(1)
	case 2:
		s.readEvents(1, 4096)
		s.ack(2)
	}
	s.disk.StopRecord()
	nOps := s.disk.NumOps()
	k := verifChoose(nOps + 1)
	pattern := verifChoose(2 + 2*s.disk.Unsynced(k))
	verifLogU64("op", uint64(op))
	verifLogU64("crash at", uint64(k))
	verifLogU64("of", uint64(nOps))
	img := s.disk.CrashImage(base, k, pattern)

	// recover
	all := s.events
	flushedAfter, ackedAfter := s.flushed, s.acked
	s2 := &qState{capacity: s.capacity, maxPages: s.maxPages, disk: txfile.VerifDiskFrom(img, s.capacity)}
	s2.open()
	p, perr := s2.q.Pending()
	verifAssert(perr == nil, "Pending on the recovered queue")
	// which state was recovered?  The operations that completed before the crash
	// are marks[j] (the last mark whose I/O log index is <= k); the one in progress
	// leads to marks[j+1].
	j := 0
	for i := range s.marks {
		if s.marks[i].ops <= k {
			j = i
		}
	}
	done := s.marks[j]
	next := done
	if j+1 < len(s.marks) {
		next = s.marks[j+1]
	}
	oldState := p == done.flushed-done.acked
	newState := p == next.flushed-next.acked
	verifAssert(oldState || newState, "the recovered queue holds the events of the completed operations, with the interrupted one applied completely or not at all")
	_, _, _, _ = flushedBefore, ackedBefore, flushedAfter, ackedAfter
	rec := done
	if !oldState {
		rec = next
	}
	s2.flushed, s2.acked = rec.flushed, rec.acked
	s2.ackedAtOpen = rec.acked - int(s2.cbACKed)
	s2.events = all[:rec.flushed]
	_ = nEvBefore
	s2.read, s2.readMark = s2.acked, s2.acked
	s2.checkCounters("recovered queue")
	// reading resumes at the first un-ACKed event and delivers the rest in order; then the queue keeps working
	s2.drain(4096)
	verifAssert(s2.read == s2.flushed, "all un-ACKed events were delivered in order, none lost, none twice")
	verifAssert(s2.appendEvent(qSizes[0], 1), "append on the recovered queue")
	verifAssert(s2.flush(), "Flush on the recovered queue")
	s2.drain(7)
	s2.checkCounters("after more traffic")
	verifReach("end")
}

// VerifQueueFull (C12): fill the bounded file until the queue reports an
// error, drain it (read + ACK work on the full file), flush the buffered events,
// check the space bound, and fill again.
func VerifQueueFull() {
	maxPages := uint(64)
	s := newQ(maxPages, uint(verifParam("wbuf", 0)))
	big := []int{2*qPayload + 17, qPayload - szEventHeader + 1, 5 * qPayload}
	sz := big[verifChoose(len(big))]
	verifLogU64("event size", uint64(sz))
	counts := [2]int{}
	retry := verifBool("retry")
	for cycle := 0; cycle < 2; cycle++ {
		failed := false
		for n := 0; n < 80 && !failed; n++ {
			before := len(s.events)
			if !s.appendEvent(sz, 1) {
				failed = true
				if retry && len(s.events) == before {
					// Write itself failed (nothing of the event was accepted): the producer frees space and
					// writes the same event again
					s.checkCounters("full file")
					for s.read < s.flushed {
						s.readEvents(2, 4096)
						if s.read > s.acked {
							s.ack(s.read - s.acked)
						}
					}
					verifAssert(s.appendEvent(sz, 1), "after space was freed the same Write succeeds")
				}
			}
		}
		if !failed && !s.flush() {
			failed = true
		}
		verifAssert(failed, "a bounded file eventually reports that it is full")
		counts[cycle] = s.flushed
		verifAssert(s.flushed < len(s.events) || s.flushed == len(s.events), "flushed events never exceed appended events")
		s.checkCounters("full file")
		// reading and ACK still succeed on the full file
		ackStep := 1 + verifChoose(2)
		for s.read < s.flushed {
			s.readEvents(ackStep, 4096)
			if s.read > s.acked {
				s.ack(s.read - s.acked)
			}
		}
		s.checkCounters("after draining the full file")
		// the buffered events are flushed by a later call and delivered in order
		verifAssert(s.flush(), "after space was freed, Flush succeeds")
		verifAssert(s.flushed == len(s.events), "no buffered event was lost when the file was full")
		s.drain(4096)
		verifAssert(s.read == len(s.events), "all events were delivered in order")
		// space: everything ACKed -> the queue holds its header page and the last event's pages at most
		dataEnd, metaEnd, metaTotal := txfile.VerifExtent(s.f)
		_ = metaEnd
		used := dataEnd - 2 - metaTotal - (txfile.VerifAvail(s.f) - (maxPages - dataEnd))
		spanned := uint((sz+szEventHeader)/qPayload + 2)
		verifAssert(used <= 1+spanned+1, "after everything was ACKed the queue holds at most its header page, the pages of the most recent event and one more page")
	}
	if !retry {
		verifAssert(counts[1]-counts[0] >= counts[0]-2, "the second fill cycle stores as many events as the first (space was reclaimed)")
	}
	verifReach("end")
}

// VerifQueueMisuse (C15): invalid calls on queue objects.
func VerifQueueMisuse() {
	s := newQ(64, 0)
	verifAssert(s.appendEvent(100, 1), "append")
	verifAssert(s.appendEvent(100, 1), "append")
	verifAssert(s.flush(), "flush")
	q, w, r := s.q, s.w, s.r
	isKind := func(err error, k ErrKind) bool {
		e, ok := err.(*Error)
		for ok && e != nil {
			if e.kind == k {
				return true
			}
			e, ok = e.cause.(*Error)
		}
		return false
	}
	switch verifChoose(11) {
	case 0: // reader without transaction
		_, e := r.Next()
		verifAssert(e != nil && isKind(e, InactiveTx), "Reader.Next without Begin: InactiveTx")
		_, e2 := r.Read(make([]byte, 8))
		verifAssert(e2 != nil && isKind(e2, InactiveTx), "Reader.Read without Begin: InactiveTx")
		_, e3 := r.Available()
		verifAssert(e3 != nil && isKind(e3, InactiveTx), "Reader.Available without Begin: InactiveTx")
		r.Done()
	case 1: // double Begin
		verifAssert(r.Begin() == nil, "Begin")
		e := r.Begin()
		verifAssert(e != nil && isKind(e, UnexpectedActiveTx), "second Reader.Begin: UnexpectedActiveTx")
		r.Done()
	case 2: // ACK more than pending
		e := q.ACK(3)
		verifAssert(e != nil && isKind(e, ACKTooMany), "ACK of more events than pending: ACKTooMany")
	case 3: // ACK on an empty queue
		s.drain(4096)
		e := q.ACK(1)
		verifAssert(e != nil && (isKind(e, ACKEmptyQueue) || isKind(e, ACKTooMany)), "ACK on an empty queue: ACKEmptyQueue/ACKTooMany")
	case 4, 5, 6, 7: // closed queue
		verifAssert(q.Close() == nil, "Queue.Close")
		switch verifChoose(7) {
		case 4: // objects handed out after Close
			r2 := q.Reader()
			e := r2.Begin()
			verifAssert(e != nil && isKind(e, ReaderClosed), "Begin on a Reader obtained after Close: ReaderClosed")
		case 5:
			w2, e := q.Writer()
			if e == nil {
				_, e = w2.Write([]byte{1})
			}
			verifAssert(e != nil && (isKind(e, WriterClosed) || isKind(e, QueueClosed)), "Writer()/Write after Close: WriterClosed/QueueClosed")
		case 6:
			_, e1 := q.Pending()
			_, e2 := q.Active()
			_ = e1
			_ = e2 // counters may still be queried; they must not panic
		case 0:
			e := r.Begin()
			verifAssert(e != nil && isKind(e, ReaderClosed), "Reader.Begin on a closed queue: ReaderClosed")
			_, e2 := r.Next()
			verifAssert(e2 != nil && isKind(e2, ReaderClosed), "Reader.Next on a closed queue: ReaderClosed")
			_, e3 := r.Read(make([]byte, 4))
			verifAssert(e3 != nil && isKind(e3, ReaderClosed), "Reader.Read on a closed queue: ReaderClosed")
		case 1:
			_, e := w.Write([]byte{1})
			verifAssert(e != nil && isKind(e, WriterClosed), "Writer.Write on a closed queue: WriterClosed")
			e2 := w.Next()
			verifAssert(e2 != nil && isKind(e2, WriterClosed), "Writer.Next on a closed queue: WriterClosed")
			e3 := w.Flush()
			verifAssert(e3 != nil && isKind(e3, WriterClosed), "Writer.Flush on a closed queue: WriterClosed")
		case 2:
			e := q.ACK(1)
			verifAssert(e != nil && isKind(e, QueueClosed), "Queue.ACK on a closed queue: QueueClosed")
		case 3:
			verifAssert(q.Close() == nil, "closing twice is allowed")
		}
	case 8: // ACK(0) is a no-op
		verifAssert(q.ACK(0) == nil, "ACK(0)")
	case 9: // the queue is closed while the reader is inside a read transaction
		verifAssert(r.Begin() == nil, "Begin")
		n, e0 := r.Next()
		verifAssert(e0 == nil && n == 100, "Next")
		verifAssert(q.Close() == nil, "Queue.Close")
		_, e := r.Read(make([]byte, 8))
		verifAssert(e != nil && isKind(e, ReaderClosed), "Reader.Read after the queue was closed: ReaderClosed")
		_, e2 := r.Next()
		verifAssert(e2 != nil && isKind(e2, ReaderClosed), "Reader.Next after the queue was closed: ReaderClosed")
		_, e3 := r.Available()
		verifAssert(e3 != nil && isKind(e3, ReaderClosed), "Reader.Available after the queue was closed: ReaderClosed")
		r.Done()
	case 10: // an oversized ACK changes nothing
		p0, _ := q.Pending()
		n := verifUint("ackcount") // any count above the number of pending events (full 64 bit)
		verifAssume(n > uint(p0))
		e := q.ACK(n)
		verifAssert(e != nil && isKind(e, ACKTooMany), "ACK of more events than pending: ACKTooMany")
		p1, e1 := q.Pending()
		a1, e2 := q.Active()
		verifAssert(e1 == nil && e2 == nil && p1 == p0 && int(a1) == p0, "a rejected ACK leaves Pending and Active unchanged")
		s.checkCounters("after the rejected ACK")
		s.drain(4096)
		verifAssert(s.read == len(s.events), "and every event is still delivered")
	}
	// nothing changed: a fresh queue over the same file still has both events (unless drained above)
	verifReach("end")
}

// VerifQueueConcurrent (C13): a producer goroutine (Write/Next/Flush) and a
// consumer goroutine (Begin/Next/Read/Done/ACK) on one queue under a symbolic
// scheduler.  The consumer receives exactly the produced sequence in order,
// ACKs never fail or remove unread events, nothing deadlocks.
func VerifQueueConcurrent() {
	s := newQ(64, 0)
	nEv := verifParam("events", 2)
	sizes := make([]int, nEv)
	for e := range sizes {
		sizes[e] = pickSize()
	}
	flushEach := verifBool("flusheach")
	verifSched(verifParam("preempt", 1))
	done := make([]bool, 2)
	received := 0
	wg := newWaiter(2)

	go func() { // producer
		for e := 0; e < nEv; e++ {
			data := eventData(e, sizes[e])
			_, err := s.w.Write(data)
			verifAssert(err == nil, "producer: Write succeeds")
			verifAssert(s.w.Next() == nil, "producer: Next succeeds")
			if flushEach {
				verifAssert(s.w.Flush() == nil, "producer: Flush succeeds")
			}
		}
		verifAssert(s.w.Flush() == nil, "producer: final Flush succeeds")
		done[0] = true
		wg.done()
	}()

	go func() { // consumer
		spins := 0
		for received < nEv {
			verifAssert(s.r.Begin() == nil, "consumer: Begin succeeds")
			n, err := s.r.Next()
			verifAssert(err == nil, "consumer: Next succeeds")
			if n == 0 {
				s.r.Done()
				spins++
				if spins > verifParam("spins", 3) && !done[0] {
					// give up polling until the producer has finished (bounds the schedule space)
					for !done[0] {
						verifPoll()
					}
				}
				verifPoll()
				continue
			}
			want := eventData(received, sizes[received])
			verifAssert(n == len(want), "consumer: events arrive in production order with their size")
			got := make([]byte, n)
			m, rerr := s.r.Read(got)
			verifAssert(rerr == nil && m == n, "consumer: Read returns the whole event")
			verifAssert(verifBytesEqual(got, want), "consumer: event bytes are exactly the produced bytes")
			s.r.Done()
			received++
			aerr := s.q.ACK(1)
			verifAssert(aerr == nil, "consumer: ACK of a delivered event succeeds")
		}
		done[1] = true
		wg.done()
	}()

	wg.wait()
	verifAssert(received == nEv, "the consumer received every produced event")
	p, perr := s.q.Pending()
	verifAssert(perr == nil && p == 0, "nothing pending at the end")
	// the queue is still consistent: one more event goes through
	s.events, s.flushed, s.acked, s.read, s.readMark = nil, 0, 0, 0, 0
	s.cbSeen = s.cbFlushed
	data := eventData(0, 100)
	_, werr := s.w.Write(data)
	verifAssert(werr == nil && s.w.Next() == nil && s.w.Flush() == nil, "the queue accepts more events")
	verifAssert(s.r.Begin() == nil, "Begin")
	n, _ := s.r.Next()
	verifAssert(n == 100, "and delivers them")
	s.r.Done()
	verifReach("end")
}

// VerifQueueChunks (C05): one small complete event, then a multi-page event
// written in several large Write calls, so that the automatic flush inside
// Write happens while the unfinished event already spans further buffer pages.
func VerifQueueChunks() {
	s := newQ(64, uint(verifParam("wbuf", 0)))
	first := []int{1, qPayload - szEventHeader, 100}
	verifAssert(s.appendEvent(first[verifChoose(len(first))], 1), "append succeeds")
	chunkSizes := []int{3000, 2500, qPayload, 2 * qPayload, 700}
	nChunks := 2 + verifChoose(2)
	e := len(s.events)
	total := 0
	var parts []int
	for c := 0; c < nChunks; c++ {
		n := chunkSizes[verifChoose(len(chunkSizes))]
		parts = append(parts, n)
		total += n
	}
	data := eventData(e, total)
	rest := data
	for _, n := range parts {
		verifLogU64("chunk", uint64(n))
		k, err := s.w.Write(rest[:n])
		s.sync()
		verifAssert(err == nil && k == n, "Write of a chunk succeeds on a nearly empty file")
		rest = rest[n:]
	}
	verifAssert(s.w.Next() == nil, "Next succeeds")
	s.events = append(s.events, data)
	s.sync()
	verifAssert(s.appendEvent(50, 1), "append succeeds")
	verifAssert(s.flush(), "Flush succeeds")
	s.checkCounters("after the flush")
	s.readEvents(4, 4096)
	verifAssert(s.read == 3, "all three events were delivered in order")
	s.ack(3)
	s.checkCounters("after the ACK")
	verifReach("end")
}


// VerifQueueFault (C06, C08 for pq): an I/O failure (write or sync, at a
// symbolic call) inside the transaction of a flush or an ACK: the call
// returns an error, nothing is lost or duplicated, a retry succeeds, later
// flushes do not disturb earlier events, reopening shows the same queue.
func VerifQueueFault() {
	s := newQ(64, 0)
	// prefix: three flushed events, two of them read and ACKed (so that free pages exist)
	for k := 0; k < 3; k++ {
		verifAssert(s.appendEvent(pickSize(), 1), "append succeeds")
	}
	verifAssert(s.flush(), "Flush succeeds")
	s.readEvents(2, 4096)
	s.ack(2)
	// two more events, flushed with an injected failure
	verifAssert(s.appendEvent(2*qPayload+17, 1), "append succeeds")
	verifAssert(s.appendEvent(pickSize(), 1), "append succeeds")
	kinds := []int{txfile.VerifFaultWrite, txfile.VerifFaultSync}
	kind, ord := kinds[verifChoose(2)], verifChoose(verifParam("faultords", 3))
	op := verifChoose(2)
	if op == 0 {
		s.disk.SetFault(kind, ord, 1)
		err := s.w.Flush()
		s.sync()
		if err != nil {
			verifAssert(s.disk.Faults() > 0, "Flush fails only because of the injected failure")
			s.disk.ClearFault()
			verifAssert(s.flush(), "the retried Flush succeeds")
		}
	} else {
		verifAssert(s.flush(), "Flush succeeds")
		s.readEvents(1, 4096)
		s.disk.SetFault(kind, ord, 1)
		n0 := s.disk.Faults()
		err := s.q.ACK(1)
		if err == nil {
			s.acked++
			s.sync()
		} else {
			verifAssert(s.disk.Faults() > n0, "ACK fails only because of the injected failure")
			s.disk.ClearFault()
			s.checkCounters("after the failed ACK")
			s.ack(1)
		}
	}
	s.disk.ClearFault()
	s.checkCounters("after the operation with the failure")
	// more traffic that re-uses freed pages
	verifAssert(s.appendEvent(pickSize(), 1), "append succeeds")
	verifAssert(s.flush(), "Flush succeeds")
	verifAssert(s.appendEvent(100, 1), "append succeeds")
	verifAssert(s.flush(), "Flush succeeds")
	s.checkCounters("after more traffic")
	if verifBool("reopen") {
		s.reopen()
		s.checkCounters("after reopen")
	}
	s.r = s.q.Reader()
	s.drain(4096)
	verifAssert(s.read == len(s.events), "every flushed event is delivered exactly once, in order, with its bytes")
	s.checkCounters("after the drain")
	verifReach("end")
}

// VerifQueueFlushTail (C12, C06, C08): the second flush only rewrites the already
// assigned tail page (no page has to be allocated); the event it adds may end
// exactly at the page end, so that the buffer already holds a fresh page for the
// next event header.  The flush meets an injected failure and is retried.
func VerifQueueFlushTail() {
	s := newQ(64, 0)
	pairs := [][2]int{{1, qPayload - 8 - 1}, {490, qPayload - 8 - 490}, {1, 100}, {qPayload - 4, 50}}
	pr := pairs[verifChoose(len(pairs))]
	verifAssert(s.appendEvent(pr[0], 1), "append succeeds")
	verifAssert(s.flush(), "Flush succeeds")
	verifAssert(s.appendEvent(pr[1], 1), "append succeeds")
	kinds := []int{txfile.VerifFaultWrite, txfile.VerifFaultSync}
	kind, ord := kinds[verifChoose(2)], verifChoose(verifParam("faultords", 3))
	s.disk.SetFault(kind, ord, 1)
	err := s.w.Flush()
	s.sync()
	if err != nil {
		verifAssert(s.disk.Faults() > 0, "Flush fails only because of the injected failure")
		s.disk.ClearFault()
		verifAssert(s.flush(), "the retried Flush succeeds")
	}
	s.disk.ClearFault()
	s.checkCounters("after the flush with the failure")
	verifAssert(s.appendEvent(100, 1), "append succeeds")
	verifAssert(s.flush(), "Flush succeeds")
	if verifBool("reopen") {
		s.reopen()
		s.checkCounters("after reopen")
	}
	s.r = s.q.Reader()
	s.drain(4096)
	verifAssert(s.read == len(s.events), "every flushed event is delivered exactly once, in order, with its bytes")
	s.checkCounters("after the drain")
	verifReach("end")
}

// VerifQueueEmptyEvent (C17): an event of zero bytes (Writer.Next without Write)
// among ordinary events.  C05 quantifies over sizes from 1 byte; the counters of
// C17 have no such restriction.
func VerifQueueEmptyEvent() {
	s := newQ(64, 0)
	pos := verifChoose(3) // the empty event is the first, the middle or the last one
	for e := 0; e < 3; e++ {
		n := 1 + 10*e
		if e == pos {
			n = 0
		}
		verifAssert(s.appendEvent(n, 1), "append succeeds")
	}
	verifAssert(s.flush(), "Flush succeeds")
	s.checkCounters("after the flush")
	s.readEvents(4, 4096)
	verifAssert(s.read == len(s.events), "every flushed event was delivered exactly once, in order")
	verifAssert(s.r.Begin() == nil, "Reader.Begin succeeds")
	avail, aerr := s.r.Available()
	verifAssert(aerr == nil && avail == 0, "Reader.Available == 0 after every event was consumed")
	s.r.Done()
	s.ack(3)
	s.checkCounters("after the ACK")
	verifReach("end")
}

// VerifQueueAckFullFile (C12): the queue shares its file with other data that
// uses up every free data page and then every free meta page.  The writer
// reports the full file and keeps its event; reading and ACK still succeed on
// the completely full file (the clean-up transaction may use the overflow
// area); the space the ACK frees lets the buffered event be flushed.
func VerifQueueAckFullFile() {
	s := newQ(64, 0)
	nEv := 9 + 4*verifChoose(2)
	for e := 0; e < nEv; e++ {
		verifAssert(s.appendEvent(400, 1), "append succeeds")
	}
	verifAssert(s.flush(), "Flush succeeds")
	// foreign data: one page per transaction until the file is full
	f := s.f
	var foreign []txfile.PageID
	for k := 0; k < 128; k++ {
		tx, err := f.Begin()
		verifAssert(err == nil, "Begin succeeds")
		p, aerr := tx.Alloc()
		if aerr == nil {
			aerr = p.SetBytes(make([]byte, qPageSize))
		}
		if aerr == nil {
			aerr = tx.Commit()
		}
		tx.Close()
		if aerr != nil {
			break
		}
		foreign = append(foreign, p.ID())
	}
	verifAssert(len(foreign) > 0 && len(foreign) < 64, "the foreign data filled the file")
	// updates of the foreign pages consume the meta area
	updated := 0
	for _, id := range foreign {
		tx, err := f.Begin()
		verifAssert(err == nil, "Begin succeeds")
		p, perr := tx.Page(id)
		if perr == nil {
			perr = p.SetBytes(make([]byte, qPageSize))
		}
		if perr == nil {
			perr = tx.Commit()
		}
		tx.Close()
		if perr != nil {
			break
		}
		updated++
	}
	verifAssume(updated < len(foreign)) // the meta area ran out of pages
	s.sync()
	s.checkCounters("full shared file")
	// the writer reports the full file and keeps the event
	late := s.appendEvent(400, 1)
	if late {
		late = s.flush()
	}
	verifAssert(!late, "the flush fails, the file is full")
	s.checkCounters("after the failed flush")
	// the consumer keeps up: read and ACK succeed on the full file
	for s.read < s.flushed {
		s.readEvents(4, 4096)
	}
	s.ack(s.read - s.acked)
	s.checkCounters("after the ACK on the full file")
	verifAssert(s.flush(), "after space was freed, Flush succeeds")
	s.drain(4096)
	verifAssert(s.read == len(s.events), "every event was delivered exactly once, in order")
	verifReach("end")
}
