//go:build verif

package pq

import txfile "github.com/elastic/go-txfile"

// VerifPqPosition (G-PQ-POS): WritePosition/ParsePosition round trip for every
// page id < 2^40, every offset in [header, pageSize], every event id; the
// end-of-page offset is encoded as 0; idLess/idLessEq order ids with wrap-around.
func VerifPqPosition() {
	s := newQ(64, 0)
	a := &s.q.accessor
	page := txfile.PageID(verifU64("page"))
	off := verifInt("off")
	id := verifU64("id")
	verifAssume(page >= 2 && uint64(page) < 1<<40)
	verifAssume(off >= szEventPageHeader && off <= qPageSize)
	var p pos
	a.WritePosition(&p, position{page: page, off: off, id: id})
	got := a.ParsePosition(&p)
	verifAssert(got.page == page && got.off == off && got.id == id, "position round trip")
	verifAssert((off == qPageSize) == (p.offset.Get()%qPageSize == 0), "the end-of-page offset, and only it, is stored as offset 0 within the page")

	// ordering of event ids within a window of 2^63, including wrap-around
	x := verifU64("x")
	d := verifU64("d")
	verifAssume(d < 1<<63)
	y := x + d
	verifAssert(idLessEq(x, y), "x <= x+d")
	verifAssert(idLess(x, y) == (d != 0), "x < x+d iff d != 0")
	verifAssert(!idLess(y, x) || d == 0 && false, "never x+d < x")
	verifReach("end")
}
