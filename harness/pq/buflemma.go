//go:build verif

package pq

// VerifPqBuffer (C05, C17 support lemma; G-PQ-BUF): the writer's page buffer
// (pq/buffer.go) driven the way Writer drives it — ReserveHdr, Append in one or
// two chunks, header fill-in, CommitEvent, ReserveHdr — with event sizes chosen
// by the solver around every page/header boundary, symbolic payload and header
// bytes and a symbolic first event id, then a simulated flush (UnmarkDirty of
// the range returned by Pages, Reset(last)), optionally a re-creation of the
// buffer from the image of the flushed tail page (what a reopened queue's
// writer does: UpdateHeader, NewPageWith, newBuffer(tail)), and further events.  An independent
// reference places the same byte stream into pages ("an event header is never
// split; payload fills a page to its end").  After every event:
//   - the page list holds exactly the reference bytes, EndOff is their end,
//     countPages is the list length;
//   - Avail() is the configured capacity minus the bytes held by the list;
//   - FirstOff/FirstID/LastID of a page describe the first/last committed event
//     whose header starts in it;
//   - the active header lies inside one page at the reference position;
//   - Pages() returns a range that contains every page holding unflushed bytes
//     of committed events, nothing else but (possibly) the head page, and n is
//     the length of that range.
func VerifPqBuffer() {
	const ps = 64
	pay := ps - szEventPageHeader
	npages := 8
	pool := newPagePool(ps)
	b := newBuffer(pool, nil, npages, ps, szEventPageHeader)
	sizes := []int{
		1,
		pay - szEventHeader,         // ends exactly at the end of the page
		pay - 2*szEventHeader,       // exactly one header fits behind it
		pay - 2*szEventHeader + 1,   // 3 bytes left: the next header moves to a new page
		pay - szEventHeader + 1,     // spills one byte
		2*pay - szEventHeader,       // two pages exactly
		pay - szEventHeader - 1,     // one byte left
		2*pay + 5,                   // three pages
	}
	nsz := verifParam("nsizes", len(sizes))
	if nsz > len(sizes) {
		nsz = len(sizes)
	}

	type refPage struct {
		data      []byte
		first     int // offset of the first committed header in the page, 0 if none
		fid, lid  uint64
		committed int // bytes of committed events in data
		flushed   int // committed bytes already flushed
	}
	var ref []*refPage
	base := 0 // index in ref of the buffer's head page
	id := verifU64("id0")

	refReserve := func() (int, int) {
		if len(ref) == 0 || pay-len(ref[len(ref)-1].data) < szEventHeader {
			ref = append(ref, &refPage{})
		}
		p := ref[len(ref)-1]
		off := len(p.data)
		// the reserved header keeps whatever the (possibly recycled) page held until the event is committed
		p.data = append(p.data, b.ActiveEventHdr()...)
		return len(ref) - 1, off
	}
	refAppend := func(d []byte) {
		for len(d) > 0 {
			p := ref[len(ref)-1]
			if len(p.data) == pay {
				p = &refPage{}
				ref = append(ref, p)
			}
			n := pay - len(p.data)
			if n > len(d) {
				n = len(d)
			}
			p.data = append(p.data, d[:n]...)
			d = d[n:]
		}
	}

	check := func(when string) {
		// list contents
		i := base
		total := 0
		n := uint(0)
		for p := b.head; p != nil; p = p.Next {
			verifAssert(i < len(ref), "the buffer holds no more pages than the reference "+when)
			if i >= len(ref) {
				return
			}
			r := ref[i]
			verifAssert(int(p.Meta.EndOff) == szEventPageHeader+len(r.data), "EndOff is the end of the bytes placed in the page "+when)
			verifAssert(verifBytesEqual(p.Data[szEventPageHeader:szEventPageHeader+len(r.data)], r.data), "page bytes equal the reference placement "+when)
			if r.first != 0 {
				verifAssert(int(p.Meta.FirstOff) == r.first && p.Meta.FirstID == r.fid && p.Meta.LastID == r.lid, "FirstOff/FirstID/LastID describe the committed events starting in the page "+when)
			} else {
				verifAssert(p.Meta.FirstOff == 0, "a page in which no committed event starts has FirstOff 0 "+when)
			}
			total += len(r.data)
			i++
			n++
			if p.Next == nil {
				verifAssert(p == b.tail, "tail is the last page of the list "+when)
			}
		}
		verifAssert(i == len(ref), "the buffer holds every reference page "+when)
		verifAssert(n == b.countPages, "countPages is the length of the page list "+when)
		verifAssert(b.Avail() == pay*npages-total, "Avail is the capacity minus the bytes held "+when)
	}

	pagesCheck := func() (start, end *page) {
		start, end, n := b.Pages()
		cnt := uint(0)
		i := base
		inRange := start != nil
		for p := b.head; p != nil; p = p.Next {
			if p == end {
				inRange = false
			}
			unflushed := ref[i].committed > ref[i].flushed
			if unflushed {
				verifAssert(inRange && start == b.head, "every page holding unflushed bytes of committed events is in the range returned by Pages")
			}
			if inRange {
				cnt++
				verifAssert(unflushed || p == b.head, "Pages returns no page without unflushed committed bytes except the head page")
			}
			i++
		}
		verifAssert(n == cnt, "Pages reports the number of pages in the returned range")
		return start, end
	}

	event := func(k int) {
		sz := sizes[verifChoose(nsz)]
		verifLogU64("event size", uint64(sz))
		data := make([]byte, sz)
		verifSymBytes("data", data)
		// the active header was reserved before: it ends the last reference page
		hp := len(ref) - 1
		hoff := len(ref[hp].data) - szEventHeader
		cut := sz
		if sz > 1 && verifChoose(2) == 1 {
			cut = sz / 2
		}
		hdrOff := b.eventHdrOffset
		verifAssert(hdrOff == szEventPageHeader+hoff, "the active header is at the reference position")
		verifAssert(hdrOff+szEventHeader <= ps, "the active header is not split across pages")
		b.Append(data[:cut])
		refAppend(data[:cut])
		if cut < sz {
			// flush range asked for in the middle of an event (the automatic flush inside Write):
			// pages holding only bytes of the unfinished event are not part of it
			pagesCheck()
			b.Append(data[cut:])
			refAppend(data[cut:])
		}
		hdr := b.ActiveEventHdr()
		verifAssert(len(hdr) == szEventHeader, "ActiveEventHdr has the reserved length")
		var hb [szEventHeader]byte
		verifSymBytes("hdr", hb[:])
		copy(hdr, hb[:])
		copy(ref[hp].data[hoff:], hb[:])
		b.CommitEvent(id)
		r := ref[hp]
		if r.first == 0 {
			r.first = szEventPageHeader + hoff
			r.fid = id
		}
		r.lid = id
		for q := hp; q < len(ref); q++ {
			ref[q].committed = len(ref[q].data)
		}
		id++
		verifAssert(b.ReserveHdr(szEventHeader) != nil, "ReserveHdr of an event header succeeds")
		refReserve()
		check("after an event")
	}

	verifAssert(b.ReserveHdr(szEventHeader) != nil, "ReserveHdr of an event header succeeds")
	refReserve()
	check("after the first ReserveHdr")
	n1 := verifParam("events", 2)
	for k := 0; k < n1; k++ {
		event(k)
	}
	start, end := pagesCheck()

	// simulated successful flush of [start,end)
	var last *page
	li := base
	for p := start; p != end; p = p.Next {
		p.UnmarkDirty()
		last = p
		ref[li].flushed = ref[li].committed
		li++
	}
	if last != nil {
		b.Reset(last)
		verifAssert(b.head == last, "Reset keeps the last flushed page as the head (it may still receive bytes)")
		base = li - 1
		check("after Reset")
		s2, e2, n2 := b.Pages()
		verifAssert(n2 == 0 && (s2 == nil || s2 == e2), "nothing to flush right after a flush")
	}
	// optionally: the writer is re-created on the flushed tail page (queue reopen):
	// UpdateHeader + page image -> NewPageWith -> newBuffer(tail) -> ReserveHdr
	if last != nil && verifParam("reload", 1) != 0 && verifChoose(2) == 1 {
		verifLog("writer re-created on the tail page")
		endOff := int(last.Meta.EndOff)
		if last == b.eventHdrPage {
			endOff = b.eventHdrOffset
		}
		last.UpdateHeader()
		img := make([]byte, ps)
		copy(img, last.Data)
		pool2 := newPagePool(ps)
		tail := pool2.NewPageWith(7, img)
		tail.Meta.EndOff = uint32(endOff)
		b = newBuffer(pool2, tail, npages, ps, szEventPageHeader)
		r := ref[base]
		r.data = r.data[:endOff-szEventPageHeader]
		verifAssert(r.committed == len(r.data) && r.flushed == r.committed, "the tail position is the end of the flushed events")
		ref = []*refPage{r}
		base = 0
		verifAssert(b.ReserveHdr(szEventHeader) != nil, "ReserveHdr of an event header succeeds")
		refReserve()
		check("after re-creating the buffer on the tail page")
	}
	n2 := verifParam("events2", 1)
	for k := 0; k < n2; k++ {
		event(n1 + k)
	}
	pagesCheck()
	verifReach("end")
}
