//go:build verif && !verifnative

package txfile

// Harness API; the bodies are supplied by the symbolic engine (gosym).  The
// natively compiled twins are in api_native.go (tag verifnative).

func verifU64(name string) uint64
func verifU32(name string) uint32
func verifU16(name string) uint16
func verifU8(name string) uint8
func verifInt(name string) int
func verifUint(name string) uint
func verifBool(name string) bool
func verifAssume(cond bool)
func verifAssert(cond bool, msg string)
func verifReach(tag string)
func verifChoose(n int) int
func verifKnown(id string, cond bool) bool
func verifSched(preemptions int)
func verifYield()
func verifLog(msg string)
func verifLogU64(msg string, v uint64)
func verifConcretize(v uint64) uint64
func verifSymBytes(name string, b []byte)
func verifSortTies(on bool)
func verifThreadsBlocked() int
func verifParam(name string, def int) int
func verifNative() bool
func verifNativeSleep()
func verifNativeLock()
func verifNativeUnlock()
func verifBytesEqual(a, b []byte) bool
func verifFlockHeld(path string) bool
func verifOr(a, b bool) bool
func verifAnd(a, b bool) bool
func verifPoll()
