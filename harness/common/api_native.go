//go:build verif && verifnative

package txfile

// Native twins of the harness API: values come from a replay model (the
// solver's assignment), assertions report instead of asking a solver.

import (
	"os"
	"bytes"
	"fmt"
	"math/rand"
	"runtime"
	"sync"
	"time"
)

type verifStop struct {
	kind string // "assume" | "assert"
	msg  string
}

var verifState struct {
	mu      sync.Mutex
	model   map[string]uint64
	counts  map[string]int
	reached map[string]int
	log     []string
	known   string
	missing []string
	stop    *verifStop
}

func verifReset(model map[string]uint64) {
	verifState.mu.Lock()
	defer verifState.mu.Unlock()
	verifState.model = model
	verifState.counts = map[string]int{}
	verifState.reached = map[string]int{}
	verifState.log = nil
	verifState.known = ""
	verifState.missing = nil
	verifState.stop = nil
}

func verifValue(base string) uint64 {
	verifState.mu.Lock()
	defer verifState.mu.Unlock()
	k := verifState.counts[base]
	verifState.counts[base] = k + 1
	name := base
	if k > 0 {
		name = fmt.Sprintf("%s#%d", base, k)
	}
	v, ok := verifState.model[name]
	if !ok {
		verifState.missing = append(verifState.missing, name)
	}
	return v
}

func verifU64(name string) uint64 { return verifValue(name) }
func verifU32(name string) uint32 { return uint32(verifValue(name)) }
func verifU16(name string) uint16 { return uint16(verifValue(name)) }
func verifU8(name string) uint8   { return uint8(verifValue(name)) }
func verifInt(name string) int    { return int(verifValue(name)) }
func verifUint(name string) uint  { return uint(verifValue(name)) }
func verifBool(name string) bool  { return verifValue(name) != 0 }
func verifChoose(n int) int {
	if n <= 1 {
		return 0
	}
	return int(verifValue("__choose"))
}
func verifSched(preemptions int) {}
func verifYield() {
	if rand.Intn(3) == 0 {
		time.Sleep(time.Duration(rand.Intn(200)) * time.Microsecond)
	} else {
		runtime.Gosched()
	}
}
func verifSortTies(on bool)           {}
func verifConcretize(v uint64) uint64 { return v }
func verifThreadsBlocked() int        { return -1 }

// verifFail records the first failed assumption/assertion and ends the calling
// goroutine (harness goroutines other than the main one must not crash the
// test binary; deferred calls such as WaitGroup.Done still run).
func verifFail(kind, msg string) {
	verifState.mu.Lock()
	if verifState.stop == nil {
		verifState.stop = &verifStop{kind: kind, msg: msg}
	}
	verifState.mu.Unlock()
	runtime.Goexit()
}

func verifAssume(cond bool) {
	if !cond {
		verifFail("assume", "")
	}
}

func verifAssert(cond bool, msg string) {
	if !cond {
		verifFail("assert", msg)
	}
}

func verifReach(tag string) {
	verifState.mu.Lock()
	verifState.reached[tag]++
	verifState.mu.Unlock()
}

func verifKnown(id string, cond bool) bool {
	if cond {
		verifState.mu.Lock()
		verifState.known = id
		verifState.mu.Unlock()
	}
	return cond
}

func verifLog(msg string) {
	verifState.mu.Lock()
	verifState.log = append(verifState.log, msg)
	verifState.mu.Unlock()
}

func verifLogU64(msg string, v uint64) { verifLog(fmt.Sprintf("%s=%d", msg, v)) }

func verifSymBytes(name string, b []byte) {
	for k := range b {
		b[k] = uint8(verifValue(fmt.Sprintf("%s[%d]", name, k)))
	}
}

func verifParam(name string, def int) int {
	verifState.mu.Lock()
	defer verifState.mu.Unlock()
	if v, ok := verifState.model["__param:"+name]; ok {
		return int(v)
	}
	return def
}

func verifNative() bool { return true }

// verifNativeSleep gives background goroutines time to reach their blocking point.
func verifNativeSleep() { time.Sleep(2 * time.Millisecond) }

var verifNativeMu sync.Mutex

// verifNativeLock/Unlock protect harness-side ghost counters when the harness
// runs natively with real goroutines (the engine runs one thread at a time).
//
// VERIF_RACE_MODE=1 (confirmation of a data race the engine reported, under
// the Go race detector): the harness lock is dropped, because one global mutex
// orders far more than the engine's model of harness variables (acquire/release
// per variable) and would hide the race in almost every native schedule.
// Reports about harness variables are ignored by the driver (it matches the
// source positions of the reported race).
var verifRaceMode = os.Getenv("VERIF_RACE_MODE") == "1"

func verifNativeLock() {
	if !verifRaceMode {
		verifNativeMu.Lock()
	}
}
func verifNativeUnlock() {
	if !verifRaceMode {
		verifNativeMu.Unlock()
	}
}

func verifBytesEqual(a, b []byte) bool { return bytes.Equal(a, b) }

func verifOr(a, b bool) bool  { return a || b }
func verifAnd(a, b bool) bool { return a && b }

func verifPoll() { verifYield() }
